#!/bin/bash
# try_seed_wt.sh <patch.diff> <property> [check args] : like try_seed.sh but on a scratch worktree (VERIF_REPO), so that
# /repo stays untouched and several seeds can be tried in parallel.
set -u
PATCH=$1; PROP=$2; shift 2
WT=/tmp/wt_try_$$
git -C /repo worktree add -q --detach $WT HEAD || exit 2
trap 'git -C /repo worktree remove --force $WT >/dev/null 2>&1' EXIT
git -C $WT apply $PATCH || { echo "== $PATCH: patch does not apply"; exit 2; }
cd /verif
VERIF_REPO=$WT VERIF_EVIDENCE_DIR=/tmp/ev_try_$$ timeout ${TRY_TIMEOUT:-1500} ./check $PROP ${TRY_VALIDATE:---no-validate} "$@" > /tmp/try_$PROP.$$.txt 2>&1
rc=$?
echo "== $PATCH on $PROP: exit=$rc"
grep -E "^VIOLATION|^violation|^BROKEN|^KNOWN|quick:|thorough:" /tmp/try_$PROP.$$.txt | cut -c1-400
rm -rf /tmp/try_$PROP.$$.txt /tmp/ev_try_$$
exit $rc
