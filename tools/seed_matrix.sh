#!/bin/bash
# seed_matrix.sh [seed ...]: run the quick check of each seed's own property against the seed (scratch worktree) and
# record exit code and the violated obligations in seeded/MATRIX.txt (exit 1 = caught, 0 = missed, 2 = inconclusive).
cd /verif
seeds=${@:-$(ls seeded | grep -E '^C[0-9]+-[0-9]+$')}
out=seeded/MATRIX.txt
for s in $seeds; do
  prop=${s%-*}
  r=$(TRY_TIMEOUT=1500 tools/try_seed_wt.sh /verif/seeded/$s/patch.diff $prop 2>&1)
  rc=$(echo "$r" | grep -o 'exit=[0-9]*' | head -1)
  obl=$(echo "$r" | grep -o '^violation in [^:]*' | sed 's/violation in //' | sort -u | tr '\n' ' ')
  line="$s $rc ${obl}"
  grep -v "^$s " $out > $out.tmp 2>/dev/null; mv $out.tmp $out 2>/dev/null
  echo "$line" >> $out
done
sort -o $out $out
