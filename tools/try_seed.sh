#!/bin/bash
# try_seed.sh <patch.diff> <property> [extra check args] : apply a seeded change to /repo, run the property's check, undo.
set -u
PATCH=$1; PROP=$2; shift 2
cd /verif
git -C /repo apply $PATCH || { echo "patch does not apply"; exit 2; }
timeout ${TRY_TIMEOUT:-1500} ./check $PROP --no-validate "$@" > /tmp/try_$PROP.$$.txt 2>&1
rc=$?
git -C /repo checkout -- .
echo "== $PATCH on $PROP: exit=$rc"
grep -E "^VIOLATION|^violation|^BROKEN|^KNOWN|quick:|thorough:" /tmp/try_$PROP.$$.txt | cut -c1-300
rm -f /tmp/try_$PROP.$$.txt
exit $rc
