#!/bin/bash
# confirm_seed.sh <seed dir> : in a scratch worktree, confirm that the demo fails with the patch and passes without,
# and that the patch compiles.  Prints a one-line verdict.  (Existing-test runs are reported by the seeding agent in meta.json;
# pass EXISTING="./pkg/..." to re-run them here with the patch applied.)
set -u
SEED=$1
WT=/tmp/wt_confirm_$$
export GOFLAGS=-mod=mod GOPROXY=off GOSUMDB=off GOTOOLCHAIN=local
git -C /repo worktree add -q --detach $WT HEAD || exit 2
cleanup() { git -C /repo worktree remove --force $WT >/dev/null 2>&1; }
trap cleanup EXIT
cd $WT
place=$(grep -m1 -o 'place in: *[^ ]*' $SEED/demo_test.go | sed 's/place in: *//')
[ -z "$place" ] && { echo "SEED $SEED: no 'place in' header"; exit 2; }
cp $SEED/demo_test.go $place/zz_seed_demo_test.go
run_demo() { timeout 1500 go test -vet=off -count=1 -run 'Seed|Demo' ./$place/ > $1 2>&1; echo $?; }
without=$(run_demo /tmp/confirm_without_$$.log)
git apply $SEED/patch.diff || { echo "SEED $SEED: patch does not apply"; exit 2; }
go build ./... > /tmp/confirm_build_$$.log 2>&1; build=$?
with=$(run_demo /tmp/confirm_with_$$.log)
existing=skipped
if [ -n "${EXISTING:-}" ]; then
  rm -f $place/zz_seed_demo_test.go
  timeout 2400 go test -vet=off -count=1 $EXISTING > /tmp/confirm_existing_$$.log 2>&1; existing=$?
fi
echo "SEED $SEED: build=$build demo_without_patch=$without (want 0) demo_with_patch=$with (want !=0) existing_with_patch=$existing"
git checkout -q -- . ; git checkout -q go.mod go.sum 2>/dev/null
rm -f /tmp/confirm_*_$$.log
