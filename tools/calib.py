#!/usr/bin/env python3
"""calib.py <prop> <obligation> k=v,k=v [timeout_s]: set the obligation's thorough params, run it in the thorough tier, print time/paths."""
import json, subprocess, sys, time
prop, ob, kv = sys.argv[1:4]
to = int(sys.argv[4]) if len(sys.argv) > 4 else 900
p = '/verif/specs/%s.json' % prop
s = json.load(open(p))
for o in s['obligations']:
    if o['id'] == ob:
        o['thorough'] = {'params': {k: int(v) for k, v in (x.split('=') for x in kv.split(',') if x)}}
json.dump(s, open(p, 'w'), indent=1)
t = time.time()
try:
    r = subprocess.run(['./check', prop, '--tier', 'thorough', '--only', ob, '--no-validate'], cwd='/verif', capture_output=True, text=True, timeout=to)
    out = [l for l in r.stdout.splitlines() if 'thorough:' in l or l.startswith('BROKEN') or l.startswith('VIOLATION')]
    print(prop, ob, kv, 'rc=%d' % r.returncode, '%.0fs' % (time.time() - t), ' | '.join(x[:160] for x in out))
except subprocess.TimeoutExpired:
    print(prop, ob, kv, 'TIMEOUT', to)
    subprocess.run(['pkill', '-f', 'gosym'])
