#!/usr/bin/env python3
"""Regenerates Appendix A of DESIGN.md (between the GENERATED markers) from specs/*.json."""
import json, glob, os
V = os.path.dirname(os.path.abspath(__file__))
out = ["## Appendix A. Registered obligations (generated from specs/*.json)", ""]
for p in sorted(glob.glob(os.path.join(V, "specs", "C*.json"))):
    s = json.load(open(p))
    out.append("### %s" % s["property"])
    out.append("")
    out.append("| obligation | package | entry | tiers | bounds (quick) | thorough overrides | native replay |")
    out.append("|---|---|---|---|---|---|---|")
    for o in s["obligations"]:
        b = o.get("bounds", {})
        bb = "unwind=%s" % b.get("unwind", 8)
        if b.get("params"):
            bb += " params=" + ",".join("%s=%s" % kv for kv in sorted(b["params"].items()))
        bb += " solvers=" + b.get("solver", "z3,z3-new-int")
        if b.get("override"):
            bb += " overrides=%d" % len(b["override"].split(","))
        th = ""
        if o.get("thorough", {}).get("params"):
            th = ",".join("%s=%s" % kv for kv in sorted(o["thorough"]["params"].items()))
        out.append("| %s | %s | %s | %s | %s | %s | %s |" % (o["id"], o["pkg"], o["entry"], "/".join(o.get("tiers", ["quick", "thorough"])), bb, th, "yes" if o.get("replay", True) else "no (engine-level models)"))
    out.append("")
    if s.get("assumptions"):
        out.append("Assumptions: " + "; ".join(s["assumptions"]))
        out.append("")
    if s.get("outside_claim"):
        out.append("Outside the claim: " + "; ".join(s["outside_claim"]))
        out.append("")
d = open(os.path.join(V, "DESIGN.md")).read()
a, rest = d.split("<!-- BEGIN GENERATED -->")
_, c = rest.split("<!-- END GENERATED -->")
open(os.path.join(V, "DESIGN.md"), "w").write(a + "<!-- BEGIN GENERATED -->\n" + "\n".join(out) + "\n<!-- END GENERATED -->" + c)
print("appendix written")
