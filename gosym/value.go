package main

// Value model of the symbolic interpreter (after x/tools/go/ssa/interp):
//
//	*Term                bool and every machine integer (BitVec), symbolic or constant
//	Float                concrete floating point only
//	string / *SymStr     concrete string / string of symbolic bytes with concrete length
//	Struct, Array        value aggregates ([]Value, copied on load/store)
//	*Value               pointer (always concrete); nil pointer is (*Value)(nil)
//	*SymPtr              pointer to element #idx (symbolic) of a scalar array/slice window
//	SliceV               slice sharing a Go backing array; nil slice is SliceV(nil)
//	Iface                interface value with concrete dynamic type
//	*Map                 insertion-ordered association list
//	*Closure, *ssa.Function, *ssa.Builtin
//	BigV                 value of type math/big.Int (a term of sort Int)
//	Tuple
//	*Opaque, Poison      engine-level handles / results of unsupported init code

import (
	"fmt"
	"go/types"
	"strings"

	"golang.org/x/tools/go/ssa"
)

type Value interface{}

type Struct []Value
type Array []Value
type SliceV []Value
type Tuple []Value

type Float struct {
	V    float64
	Bits int
}

type SymStr struct{ B []*Term } // each BV8

// SymFloat is a float64 known to be exactly the (signed 64-bit) integer T, |T| < 2^53.
// It only arises from Duration.Seconds() on whole-second durations and can only be
// converted back to an integer.
type SymFloat struct{ T *Term }

// BitLenV is the (lazy) result of big.Int.BitLen() on a symbolic value: comparisons with constants become a single
// integer comparison; any other use materialises an ite chain.
type BitLenV struct{ Abs *Term }

type SymPtr struct {
	Elems []Value // window; every element is a *Term of the same sort
	Idx   *Term   // BV64, assumed (checked by the creator) < len(Elems)
}

type Iface struct {
	T types.Type
	V Value
}

type Closure struct {
	Fn  *ssa.Function
	Env []Value
}

type BigV struct{ T *Term } // sort Int

type Opaque struct {
	Kind string
	Data interface{}
}

type Poison struct{ Why string }

type Chan struct{}

type Map struct {
	KeyT  types.Type
	Keys  []Value
	Vals  []Value
	Dead  []bool         // tombstones keep iteration indices stable
	Index map[string]int // concrete-key index → position
	N     int            // live entries
}

// runtime error raised by the target program (index out of range, nil deref …)
type runtimeError struct{ msg string }

// explicit panic(v) of the target program
type targetPanic struct{ v Value }

// pathEnd terminates the current path (never recoverable by the target)
type pathEnd struct {
	kind string // "assume", "unsupported", "unwind", "steps", "exit"
	msg  string
}

func isBigInt(t types.Type) bool {
	n, ok := types.Unalias(t).(*types.Named)
	if !ok {
		return false
	}
	o := n.Obj()
	return o.Pkg() != nil && o.Pkg().Path() == "math/big" && o.Name() == "Int"
}

func isNamed(t types.Type, pkg, name string) bool {
	n, ok := types.Unalias(t).(*types.Named)
	if !ok {
		return false
	}
	o := n.Obj()
	return o.Pkg() != nil && o.Pkg().Path() == pkg && o.Name() == name
}

// intInfo returns the width and signedness of a basic integer type.
func intInfo(t types.Type) (w int, signed bool, ok bool) {
	b, isB := t.Underlying().(*types.Basic)
	if !isB {
		return 0, false, false
	}
	switch b.Kind() {
	case types.Int, types.Int64, types.UntypedInt:
		return 64, true, true
	case types.Int32, types.UntypedRune:
		return 32, true, true
	case types.Int16:
		return 16, true, true
	case types.Int8:
		return 8, true, true
	case types.Uint, types.Uint64, types.Uintptr:
		return 64, false, true
	case types.Uint32:
		return 32, false, true
	case types.Uint16:
		return 16, false, true
	case types.Uint8:
		return 8, false, true
	}
	return 0, false, false
}

func isFloat(t types.Type) (bits int, ok bool) {
	b, isB := t.Underlying().(*types.Basic)
	if !isB {
		return 0, false
	}
	switch b.Kind() {
	case types.Float32:
		return 32, true
	case types.Float64, types.UntypedFloat:
		return 64, true
	}
	return 0, false
}

func (in *Interp) zero(t types.Type) Value {
	if isBigInt(t) {
		return BigV{in.tt.IntI(0)}
	}
	switch t := t.Underlying().(type) {
	case *types.Basic:
		if t.Kind() == types.UntypedNil {
			panic("untyped nil has no zero value")
		}
		if t.Info()&types.IsBoolean != 0 {
			return in.tt.False
		}
		if w, _, ok := intInfo(t); ok {
			return in.tt.BVU(0, w)
		}
		if b, ok := isFloat(t); ok {
			return Float{0, b}
		}
		if t.Info()&types.IsString != 0 {
			return ""
		}
		if t.Kind() == types.UnsafePointer {
			return (*Value)(nil)
		}
		if t.Info()&types.IsComplex != 0 {
			return Poison{"complex"}
		}
		panic(fmt.Sprintf("zero: basic %v", t))
	case *types.Pointer:
		return (*Value)(nil)
	case *types.Struct:
		s := make(Struct, t.NumFields())
		for i := range s {
			s[i] = in.zero(t.Field(i).Type())
		}
		return s
	case *types.Array:
		a := make(Array, t.Len())
		if t.Len() > 0 {
			et := t.Elem()
			if _, _, ok := intInfo(et); ok {
				z := in.zero(et)
				for i := range a {
					a[i] = z
				}
			} else {
				for i := range a {
					a[i] = in.zero(et)
				}
			}
		}
		return a
	case *types.Slice:
		return SliceV(nil)
	case *types.Map:
		return (*Map)(nil)
	case *types.Interface:
		return Iface{}
	case *types.Signature:
		return (*Closure)(nil)
	case *types.Chan:
		return (*Chan)(nil)
	case *types.Tuple:
		if t.Len() == 1 {
			return in.zero(t.At(0).Type())
		}
		s := make(Tuple, t.Len())
		for i := range s {
			s[i] = in.zero(t.At(i).Type())
		}
		return s
	}
	panic(fmt.Sprintf("zero: unexpected type %v", t))
}

// copyVal copies aggregates (value semantics); everything else is shared.
func copyVal(v Value) Value {
	switch v := v.(type) {
	case Struct:
		c := make(Struct, len(v))
		for i, f := range v {
			c[i] = copyVal(f)
		}
		return c
	case Array:
		c := make(Array, len(v))
		for i, f := range v {
			c[i] = copyVal(f)
		}
		return c
	case Tuple:
		// tuples are never mutated
		return v
	}
	return v
}

type undoRec struct {
	addr *Value
	old  Value
	fn   func()
}

// store writes v to *addr, keeping the identity of the cells of aggregates so
// that field/element pointers taken earlier stay valid.
func (in *Interp) store(addr *Value, v Value) {
	switch v := v.(type) {
	case Struct:
		if dst, ok := (*addr).(Struct); ok && len(dst) == len(v) {
			for i := range v {
				in.store(&dst[i], v[i])
			}
			return
		}
		in.logCell(addr)
		*addr = copyVal(v)
		return
	case Array:
		if dst, ok := (*addr).(Array); ok && len(dst) == len(v) {
			for i := range v {
				in.store(&dst[i], v[i])
			}
			return
		}
		in.logCell(addr)
		*addr = copyVal(v)
		return
	}
	in.logCell(addr)
	*addr = v
}

func (in *Interp) logCell(addr *Value) {
	if in.logging {
		in.undo = append(in.undo, undoRec{addr: addr, old: *addr})
	}
}

func (in *Interp) logFn(fn func()) {
	if in.logging {
		in.undo = append(in.undo, undoRec{fn: fn})
	}
}

func (in *Interp) rollbackUndo() {
	for i := len(in.undo) - 1; i >= 0; i-- {
		r := in.undo[i]
		if r.fn != nil {
			r.fn()
		} else {
			*r.addr = r.old
		}
	}
	in.undo = in.undo[:0]
}

// ---------------------------------------------------------------- maps

func (in *Interp) newMap(kt types.Type) *Map {
	return &Map{KeyT: kt, Index: map[string]int{}}
}

// concreteKey renders a fully concrete value as a string usable as a Go map
// key; ok=false if any part is symbolic.
func concreteKey(v Value, sb *strings.Builder) bool {
	switch v := v.(type) {
	case *Term:
		if !v.IsConst() {
			return false
		}
		sb.WriteString(v.val.Text(16))
		sb.WriteByte(';')
		return true
	case string:
		fmt.Fprintf(sb, "s%d:%s;", len(v), v)
		return true
	case *SymStr:
		return false
	case Struct:
		sb.WriteByte('{')
		for _, f := range v {
			if !concreteKey(f, sb) {
				return false
			}
		}
		sb.WriteByte('}')
		return true
	case Array:
		sb.WriteByte('[')
		for _, f := range v {
			if !concreteKey(f, sb) {
				return false
			}
		}
		sb.WriteByte(']')
		return true
	case *Value:
		fmt.Fprintf(sb, "p%p;", v)
		return true
	case Iface:
		if v.T == nil {
			sb.WriteString("nil;")
			return true
		}
		sb.WriteString(v.T.String())
		sb.WriteByte(':')
		return concreteKey(v.V, sb)
	case Float:
		fmt.Fprintf(sb, "f%v;", v.V)
		return true
	case BigV:
		return false
	case *Opaque:
		fmt.Fprintf(sb, "o%p;", v)
		return true
	}
	return false
}

func (m *Map) allConcrete() bool { return len(m.Index) == m.N }

// find returns the position of key k or -1.  It may branch.
func (in *Interp) mapFind(m *Map, k Value) int {
	if m == nil {
		return -1
	}
	var sb strings.Builder
	kc := concreteKey(k, &sb)
	if kc {
		if i, ok := m.Index[sb.String()]; ok {
			return i
		}
		if m.allConcrete() {
			return -1
		}
	}
	for i := range m.Keys {
		if m.Dead[i] {
			continue
		}
		c := in.equal(m.KeyT, m.Keys[i], k)
		if c.IsFalse() {
			continue
		}
		if c.IsTrue() || in.branch(c) {
			return i
		}
	}
	return -1
}

func (in *Interp) mapInsert(m *Map, k, v Value) {
	if m == nil {
		panic(runtimeError{"assignment to entry in nil map"})
	}
	i := in.mapFind(m, k)
	if i >= 0 {
		old := m.Vals[i]
		in.logFn(func() { m.Vals[i] = old })
		m.Vals[i] = copyVal(v)
		return
	}
	pos := len(m.Keys)
	m.Keys = append(m.Keys, copyVal(k))
	m.Vals = append(m.Vals, copyVal(v))
	m.Dead = append(m.Dead, false)
	m.N++
	var sb strings.Builder
	ks := ""
	if concreteKey(k, &sb) {
		ks = sb.String()
		m.Index[ks] = pos
	}
	in.logFn(func() {
		m.Keys = m.Keys[:pos]
		m.Vals = m.Vals[:pos]
		m.Dead = m.Dead[:pos]
		m.N--
		if ks != "" {
			delete(m.Index, ks)
		}
	})
}

func (in *Interp) mapDelete(m *Map, k Value) {
	i := in.mapFind(m, k)
	if i < 0 {
		return
	}
	m.Dead[i] = true
	m.N--
	var sb strings.Builder
	ks := ""
	if concreteKey(m.Keys[i], &sb) {
		ks = sb.String()
		delete(m.Index, ks)
	}
	in.logFn(func() {
		m.Dead[i] = false
		m.N++
		if ks != "" {
			m.Index[ks] = i
		}
	})
}

// ---------------------------------------------------------------- equality

// equal returns the Bool term for x == y at static type t.
func (in *Interp) equal(t types.Type, x, y Value) *Term {
	tt := in.tt
	if _, ok := x.(Poison); ok {
		panic(pathEnd{"unsupported", "comparison of poisoned value: " + x.(Poison).Why})
	}
	if _, ok := y.(Poison); ok {
		panic(pathEnd{"unsupported", "comparison of poisoned value: " + y.(Poison).Why})
	}
	switch x := x.(type) {
	case *Term:
		return tt.Eq(x, y.(*Term))
	case Float:
		return tt.Bool(x.V == y.(Float).V)
	case string:
		switch y := y.(type) {
		case string:
			return tt.Bool(x == y)
		case *SymStr:
			return in.symStrEq(in.toSymStr(x), y)
		}
	case *SymStr:
		return in.symStrEq(x, in.toSymStr(y))
	case Struct:
		y2 := y.(Struct)
		st, _ := t.Underlying().(*types.Struct)
		r := tt.True
		for i := range x {
			var ft types.Type
			if st != nil {
				if st.Field(i).Name() == "_" {
					continue
				}
				ft = st.Field(i).Type()
			}
			r = tt.And(r, in.equal(ft, x[i], y2[i]))
			if r.IsFalse() {
				return r
			}
		}
		return r
	case Array:
		y2 := y.(Array)
		var et types.Type
		if at, ok := t.Underlying().(*types.Array); ok {
			et = at.Elem()
		}
		r := tt.True
		for i := range x {
			r = tt.And(r, in.equal(et, x[i], y2[i]))
			if r.IsFalse() {
				return r
			}
		}
		return r
	case *Value:
		switch y := y.(type) {
		case *Value:
			return tt.Bool(x == y)
		case *SymPtr:
			return tt.False
		}
	case *SymPtr:
		if y2, ok := y.(*SymPtr); ok && len(x.Elems) > 0 && len(y2.Elems) > 0 && &x.Elems[0] == &y2.Elems[0] {
			return tt.Eq(x.Idx, y2.Idx)
		}
		return tt.False
	case Iface:
		y2 := y.(Iface)
		if x.T == nil || y2.T == nil {
			return tt.Bool(x.T == nil && y2.T == nil)
		}
		if !types.Identical(x.T, y2.T) {
			return tt.False
		}
		if !types.Comparable(x.T) {
			panic(runtimeError{"runtime error: comparing uncomparable type " + x.T.String()})
		}
		return in.equal(x.T, x.V, y2.V)
	case *Map:
		return tt.Bool(x == y.(*Map))
	case SliceV:
		// only comparison with nil is legal
		y2 := y.(SliceV)
		return tt.Bool((x == nil) == (y2 == nil) && (x == nil || y2 == nil))
	case *Closure:
		switch y := y.(type) {
		case *Closure:
			return tt.Bool(x == y)
		default:
			return tt.Bool(x == nil && isNilFunc(y))
		}
	case *ssa.Function:
		return tt.Bool(x == nil && isNilFunc(y))
	case *ssa.Builtin:
		return tt.False
	case *Chan:
		return tt.Bool(x == y.(*Chan))
	case BigV:
		return tt.Eq(x.T, y.(BigV).T)
	case *Opaque:
		y2, _ := y.(*Opaque)
		return tt.Bool(x == y2)
	case nil:
		return tt.Bool(y == nil)
	}
	panic(pathEnd{"unsupported", fmt.Sprintf("equal: %T vs %T", x, y)})
}

func isNilFunc(v Value) bool {
	switch v := v.(type) {
	case *Closure:
		return v == nil
	case *ssa.Function:
		return v == nil
	}
	return false
}

func (in *Interp) toSymStr(v Value) *SymStr {
	switch v := v.(type) {
	case *SymStr:
		return v
	case string:
		s := &SymStr{B: make([]*Term, len(v))}
		for i := 0; i < len(v); i++ {
			s.B[i] = in.tt.BVU(uint64(v[i]), 8)
		}
		return s
	}
	panic(pathEnd{"unsupported", fmt.Sprintf("toSymStr: %T", v)})
}

func (in *Interp) symStrEq(a, b *SymStr) *Term {
	if len(a.B) != len(b.B) {
		return in.tt.False
	}
	r := in.tt.True
	for i := range a.B {
		r = in.tt.And(r, in.tt.Eq(a.B[i], b.B[i]))
		if r.IsFalse() {
			return r
		}
	}
	return r
}

// symStrLess: lexicographic a < b
func (in *Interp) symStrLess(a, b *SymStr) *Term {
	tt := in.tt
	n := len(a.B)
	if len(b.B) < n {
		n = len(b.B)
	}
	// from the end: less = a[i]<b[i] || (a[i]==b[i] && rest)
	r := tt.Bool(len(a.B) < len(b.B))
	for i := n - 1; i >= 0; i-- {
		r = tt.Or(tt.BvUlt(a.B[i], b.B[i]), tt.And(tt.Eq(a.B[i], b.B[i]), r))
	}
	return r
}

// strLen returns the (concrete) length of a string value.
func strLen(v Value) int {
	switch v := v.(type) {
	case string:
		return len(v)
	case *SymStr:
		return len(v.B)
	}
	panic(pathEnd{"unsupported", fmt.Sprintf("strLen: %T", v)})
}

// normStr turns a SymStr whose bytes are all constant back into a Go string.
func normStr(s *SymStr) Value {
	buf := make([]byte, len(s.B))
	for i, b := range s.B {
		if !b.IsConst() {
			return s
		}
		buf[i] = byte(b.val.Uint64())
	}
	return string(buf)
}

func describe(v Value) string {
	switch v := v.(type) {
	case *Term:
		return v.String()
	case string:
		return fmt.Sprintf("%q", v)
	case Iface:
		if v.T == nil {
			return "nil"
		}
		return fmt.Sprintf("%s(%s)", v.T, describe(v.V))
	case Struct:
		var parts []string
		for i, f := range v {
			if i > 6 {
				parts = append(parts, "…")
				break
			}
			parts = append(parts, describe(f))
		}
		return "{" + strings.Join(parts, ",") + "}"
	case *Value:
		if v == nil {
			return "nil"
		}
		return "&" + describe(*v)
	case BigV:
		return "big(" + v.T.String() + ")"
	case runtimeError:
		return v.msg
	}
	return fmt.Sprintf("%T", v)
}
