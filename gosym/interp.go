package main

// Symbolic SSA interpreter.  Structure follows x/tools/go/ssa/interp; scalar
// values are SMT terms, control flow on a symbolic condition goes through
// Interp.branch (one decision of the current path).

import (
	"fmt"
	"go/constant"
	"go/token"
	"go/types"
	"math/big"
	"os"
	"runtime"
	"strings"

	"golang.org/x/tools/go/ssa"
)

type deferred struct {
	fn    Value
	args  []Value
	instr *ssa.Defer
	tail  *deferred
}

type frame struct {
	in               *Interp
	caller           *frame
	fn               *ssa.Function
	block, prevBlock *ssa.BasicBlock
	env              map[ssa.Value]Value
	locals           []Value
	defers           *deferred
	result           Value
	panicking        bool
	panic            interface{}
	phitemps         []Value
	symBranches      map[ssa.Instruction]int
	callpos          token.Pos
}

type intrinsicFn func(in *Interp, fr *frame, fn *ssa.Function, args []Value) Value

type Interp struct {
	prog      *ssa.Program
	tt        *TermTable
	globals   map[*ssa.Global]*Value
	initState map[*ssa.Package]int
	initDepth int
	logging   bool
	undo      []undoRec
	cfg       *Config
	path      *Path
	ex        *Explorer
	solver    *Solver
	solvers   []*Solver
	steps     int64
	intrCache map[*ssa.Function]intrinsicFn
	overrides map[*ssa.Function]*ssa.Function
	funcsSeen map[*ssa.Function]bool
	warnings  map[string]bool
	errStrT   types.Type // *errors.errorString
	rtErrT    types.Type // runtime.errorString-like: we use errors.errorString too
	nondetSeq map[string]int
	mapNondet bool
	trace     bool
	depth     int
	clock     *Term
	objSeq    int
	hashApps  map[string][]hashApp
	lastReal  bool
	builtPkgs map[*ssa.Package]bool
}

func (fr *frame) get(key ssa.Value) Value {
	switch key := key.(type) {
	case nil:
		return nil
	case *ssa.Function:
		return key
	case *ssa.Builtin:
		return key
	case *ssa.Const:
		return fr.in.constValue(key)
	case *ssa.Global:
		return fr.in.globalAddr(key)
	}
	if r, ok := fr.env[key]; ok {
		return r
	}
	panic(fmt.Sprintf("get: no value for %T: %v in %s", key, key.Name(), fr.fn))
}

func (in *Interp) unsupported(format string, args ...interface{}) {
	panic(pathEnd{"unsupported", fmt.Sprintf(format, args...)})
}

func (in *Interp) constValue(c *ssa.Const) Value {
	if c.Value == nil {
		return in.zero(c.Type())
	}
	t := c.Type().Underlying()
	if tp, ok := t.(*types.TypeParam); ok {
		t = tp.Underlying()
	}
	if b, ok := t.(*types.Basic); ok {
		switch {
		case b.Info()&types.IsBoolean != 0:
			return in.tt.Bool(constant.BoolVal(c.Value))
		case b.Info()&types.IsString != 0:
			if c.Value.Kind() == constant.String {
				return constant.StringVal(c.Value)
			}
			return string(rune(c.Int64()))
		case b.Info()&types.IsInteger != 0:
			w, _, _ := intInfo(b)
			v := constant.ToInt(c.Value)
			if i, ok := constant.Int64Val(v); ok {
				return in.tt.BVI(i, w)
			}
			if u, ok := constant.Uint64Val(v); ok {
				return in.tt.BVU(u, w)
			}
			bi, _ := new(big.Int).SetString(v.ExactString(), 10)
			return in.tt.BVConst(bi, w)
		case b.Info()&types.IsFloat != 0:
			bits, _ := isFloat(b)
			f, _ := constant.Float64Val(constant.ToFloat(c.Value))
			return Float{f, bits}
		case b.Info()&types.IsComplex != 0:
			return Poison{"complex constant"}
		}
	}
	panic(fmt.Sprintf("constValue: unexpected constant %v of type %v", c, c.Type()))
}

// ---------------------------------------------------------------- globals / init

func (in *Interp) globalAddr(g *ssa.Global) *Value {
	if cell, ok := in.globals[g]; ok {
		in.ensureInit(g.Pkg)
		return cell
	}
	// allocate cells for the whole package
	for _, m := range g.Pkg.Members {
		if gv, ok := m.(*ssa.Global); ok {
			z := in.zero(gv.Type().(*types.Pointer).Elem())
			cell := new(Value)
			*cell = z
			in.globals[gv] = cell
		}
	}
	in.ensureInit(g.Pkg)
	cell, ok := in.globals[g]
	if !ok {
		z := in.zero(g.Type().(*types.Pointer).Elem())
		cell = new(Value)
		*cell = z
		in.globals[g] = cell
	}
	return cell
}

// ensureInit runs the package initializer of pkg concretely the first time
// one of its globals is touched.  Initializers of imported packages are not
// called from here; they run when their own globals are touched.
func (in *Interp) ensureInit(pkg *ssa.Package) {
	if in.initState[pkg] != 0 {
		return
	}
	in.initState[pkg] = 1
	initFn := pkg.Func("init")
	if initFn == nil {
		in.initState[pkg] = 2
		return
	}
	pkg.Build()
	savedLogging, savedPath := in.logging, in.path
	in.logging = false
	in.initDepth++
	defer func() {
		in.initDepth--
		in.logging = savedLogging
		in.path = savedPath
		in.initState[pkg] = 2
		if r := recover(); r != nil {
			in.warn("init of %s incomplete: %v", pkg.Pkg.Path(), panicString(r))
		}
	}()
	in.callSSA(nil, token.NoPos, initFn, nil, nil)
}

func panicString(r interface{}) string {
	switch r := r.(type) {
	case pathEnd:
		return r.kind + ": " + r.msg
	case runtimeError:
		return r.msg
	case targetPanic:
		return "panic: " + describe(r.v)
	}
	return fmt.Sprint(r)
}

func (in *Interp) warn(format string, args ...interface{}) {
	s := fmt.Sprintf(format, args...)
	if len(in.warnings) > 60 {
		return
	}
	if !in.warnings[s] {
		in.warnings[s] = true
		if in.cfg.Verbose {
			fmt.Fprintln(os.Stderr, "warning:", s)
		}
	}
}

// ---------------------------------------------------------------- defers

func (fr *frame) runDefer(d *deferred) {
	var ok bool
	defer func() {
		if !ok {
			r := recover()
			if pe, isPE := r.(pathEnd); isPE {
				panic(pe)
			}
			fr.panicking = true
			fr.panic = r
		}
	}()
	fr.in.call(fr, d.instr.Pos(), d.fn, d.args)
	ok = true
}

func (fr *frame) runDefers() {
	for d := fr.defers; d != nil; d = d.tail {
		fr.runDefer(d)
	}
	fr.defers = nil
	if fr.panicking {
		panic(fr.panic)
	}
}

// ---------------------------------------------------------------- instructions

type continuation int

const (
	kNext continuation = iota
	kReturn
	kJump
)

func (in *Interp) visitInstr(fr *frame, instr ssa.Instruction) continuation {
	switch instr := instr.(type) {
	case *ssa.DebugRef:
	case *ssa.UnOp:
		fr.env[instr] = in.unop(fr, instr, fr.get(instr.X))
	case *ssa.BinOp:
		fr.env[instr] = in.binop(instr.Op, instr.X.Type(), fr.get(instr.X), fr.get(instr.Y))
	case *ssa.Call:
		fn, args := in.prepareCall(fr, &instr.Call)
		fr.env[instr] = in.call(fr, instr.Pos(), fn, args)
	case *ssa.ChangeInterface:
		fr.env[instr] = fr.get(instr.X)
	case *ssa.ChangeType:
		fr.env[instr] = fr.get(instr.X)
	case *ssa.Convert:
		fr.env[instr] = in.conv(instr.Type(), instr.X.Type(), fr.get(instr.X))
	case *ssa.MultiConvert:
		fr.env[instr] = in.conv(instr.Type(), instr.X.Type(), fr.get(instr.X))
	case *ssa.SliceToArrayPointer:
		x := fr.get(instr.X).(SliceV)
		n := int(instr.Type().Underlying().(*types.Pointer).Elem().Underlying().(*types.Array).Len())
		if len(x) < n {
			panic(runtimeError{"runtime error: cannot convert slice with length to array or pointer to array"})
		}
		if n == 0 && x == nil {
			fr.env[instr] = (*Value)(nil)
			break
		}
		// the array must alias the slice: represent it as an Array sharing cells
		cell := new(Value)
		*cell = Array(x[:n:n])
		fr.env[instr] = cell
	case *ssa.MakeInterface:
		fr.env[instr] = Iface{T: instr.X.Type(), V: fr.get(instr.X)}
	case *ssa.Extract:
		fr.env[instr] = fr.get(instr.Tuple).(Tuple)[instr.Index]
	case *ssa.Slice:
		fr.env[instr] = in.slice(fr.get(instr.X), fr.get(instr.Low), fr.get(instr.High), fr.get(instr.Max))
	case *ssa.Return:
		switch len(instr.Results) {
		case 0:
		case 1:
			fr.result = fr.get(instr.Results[0])
		default:
			res := make(Tuple, 0, len(instr.Results))
			for _, r := range instr.Results {
				res = append(res, fr.get(r))
			}
			fr.result = res
		}
		fr.block = nil
		return kReturn
	case *ssa.RunDefers:
		fr.runDefers()
	case *ssa.Panic:
		panic(targetPanic{fr.get(instr.X)})
	case *ssa.Send:
		in.unsupported("channel send at %s", in.pos(instr.Pos()))
	case *ssa.Store:
		in.storeTo(fr.get(instr.Addr), fr.get(instr.Val))
	case *ssa.If:
		c, ok := fr.get(instr.Cond).(*Term)
		if !ok {
			in.unsupported("branch on %T at %s", fr.get(instr.Cond), in.pos(instr.Pos()))
		}
		succ := 1
		if c.IsConst() {
			if c.IsTrue() {
				succ = 0
			}
		} else {
			if fr.symBranches == nil {
				fr.symBranches = map[ssa.Instruction]int{}
			}
			if in.branch(c) {
				succ = 0
			}
			if in.lastReal {
				// a real two-sided decision was taken at this instruction
				fr.symBranches[instr]++
				if fr.symBranches[instr] > in.cfg.Unwind {
					panic(pathEnd{"unwind", fmt.Sprintf("symbolic branch at %s taken more than %d times in one activation of %s",
						in.pos(instr.Cond.Pos()), in.cfg.Unwind, fr.fn)})
				}
			}
		}
		fr.prevBlock, fr.block = fr.block, fr.block.Succs[succ]
		return kJump
	case *ssa.Jump:
		fr.prevBlock, fr.block = fr.block, fr.block.Succs[0]
		return kJump
	case *ssa.Defer:
		fn, args := in.prepareCall(fr, &instr.Call)
		defers := &fr.defers
		if instr.DeferStack != nil {
			if into := fr.get(instr.DeferStack); into != nil {
				defers = into.(**deferred)
			}
		}
		*defers = &deferred{fn: fn, args: args, instr: instr, tail: *defers}
	case *ssa.Go:
		// goroutines are not modelled; starting one is recorded and ignored only
		// when the harness allows it, otherwise the path is inconclusive.
		if in.cfg.IgnoreGo || in.initDepth > 0 {
			in.warn("go statement ignored at %s", in.pos(instr.Pos()))
			break
		}
		in.unsupported("go statement at %s", in.pos(instr.Pos()))
	case *ssa.MakeChan:
		fr.env[instr] = &Chan{}
	case *ssa.Alloc:
		var addr *Value
		if instr.Heap {
			addr = new(Value)
			fr.env[instr] = addr
		} else {
			addr = fr.env[instr].(*Value)
		}
		*addr = in.zero(instr.Type().Underlying().(*types.Pointer).Elem())
	case *ssa.MakeSlice:
		capV := in.concretizeInt(fr.get(instr.Cap), "make cap", in.pos(instr.Pos()))
		lenV := in.concretizeInt(fr.get(instr.Len), "make len", in.pos(instr.Pos()))
		if lenV < 0 || capV < lenV || capV > 1<<32 {
			if capV > 1<<32 || lenV > 1<<32 {
				panic(runtimeError{"runtime error: makeslice: len out of range (huge allocation)"})
			}
			panic(runtimeError{"runtime error: makeslice: len out of range"})
		}
		if capV > int64(in.cfg.MaxAlloc) {
			panic(runtimeError{fmt.Sprintf("verif: allocation of %d elements exceeds the harness allocation cap %d", capV, in.cfg.MaxAlloc)})
		}
		s := make(SliceV, capV)
		et := instr.Type().Underlying().(*types.Slice).Elem()
		if _, _, ok := intInfo(et); ok {
			z := in.zero(et)
			for i := range s {
				s[i] = z
			}
		} else {
			for i := range s {
				s[i] = in.zero(et)
			}
		}
		fr.env[instr] = s[:lenV]
	case *ssa.MakeMap:
		fr.env[instr] = in.newMap(instr.Type().Underlying().(*types.Map).Key())
	case *ssa.Range:
		fr.env[instr] = in.rangeIter(fr.get(instr.X), instr.X.Type())
	case *ssa.Next:
		fr.env[instr] = fr.get(instr.Iter).(iter).next(in)
	case *ssa.FieldAddr:
		p, ok := fr.get(instr.X).(*Value)
		if !ok {
			in.unsupported("FieldAddr on %T at %s", fr.get(instr.X), in.pos(instr.Pos()))
		}
		if p == nil {
			panic(runtimeError{"runtime error: invalid memory address or nil pointer dereference"})
		}
		s, ok := (*p).(Struct)
		if !ok {
			in.unsupported("FieldAddr: cell holds %T (%s) at %s", *p, instr.X.Type(), in.pos(instr.Pos()))
		}
		fr.env[instr] = &s[instr.Field]
	case *ssa.Field:
		s, ok := fr.get(instr.X).(Struct)
		if !ok {
			in.unsupported("Field on %T at %s", fr.get(instr.X), in.pos(instr.Pos()))
		}
		fr.env[instr] = s[instr.Field]
	case *ssa.IndexAddr:
		fr.env[instr] = in.indexAddr(fr, instr)
	case *ssa.Index:
		fr.env[instr] = in.index(fr, instr)
	case *ssa.Lookup:
		fr.env[instr] = in.lookup(instr, fr.get(instr.X), fr.get(instr.Index))
	case *ssa.MapUpdate:
		m, ok := fr.get(instr.Map).(*Map)
		if !ok {
			in.unsupported("MapUpdate on %T", fr.get(instr.Map))
		}
		in.mapInsert(m, fr.get(instr.Key), fr.get(instr.Value))
	case *ssa.TypeAssert:
		fr.env[instr] = in.typeAssert(instr, fr.get(instr.X))
	case *ssa.MakeClosure:
		var bindings []Value
		for _, b := range instr.Bindings {
			bindings = append(bindings, fr.get(b))
		}
		fr.env[instr] = &Closure{instr.Fn.(*ssa.Function), bindings}
	case *ssa.Select:
		in.unsupported("select at %s", in.pos(instr.Pos()))
	default:
		panic(fmt.Sprintf("unexpected instruction: %T", instr))
	}
	return kNext
}

func (in *Interp) pos(p token.Pos) string {
	if p == token.NoPos {
		return "?"
	}
	ps := in.prog.Fset.Position(p)
	f := ps.Filename
	if i := strings.Index(f, "/repo/"); i >= 0 {
		f = f[i+6:]
	}
	return fmt.Sprintf("%s:%d", f, ps.Line)
}

func (in *Interp) storeTo(addr Value, v Value) {
	switch a := addr.(type) {
	case *Value:
		if a == nil {
			panic(runtimeError{"runtime error: invalid memory address or nil pointer dereference"})
		}
		in.store(a, v)
	case *SymPtr:
		nv, ok := v.(*Term)
		if !ok {
			in.unsupported("store of %T through symbolic index", v)
		}
		for i := range a.Elems {
			old := a.Elems[i].(*Term)
			c := in.tt.Eq(a.Idx, in.tt.BVU(uint64(i), 64))
			in.store(&a.Elems[i], in.tt.Ite(c, nv, old))
		}
	default:
		in.unsupported("store through %T", addr)
	}
}

func (in *Interp) load(addr Value) Value {
	switch a := addr.(type) {
	case *Value:
		if a == nil {
			panic(runtimeError{"runtime error: invalid memory address or nil pointer dereference"})
		}
		return copyVal(*a)
	case *SymPtr:
		r := a.Elems[len(a.Elems)-1].(*Term)
		for i := len(a.Elems) - 2; i >= 0; i-- {
			r = in.tt.Ite(in.tt.Eq(a.Idx, in.tt.BVU(uint64(i), 64)), a.Elems[i].(*Term), r)
		}
		return r
	case Poison:
		in.unsupported("load through poisoned pointer: %s", a.Why)
	}
	in.unsupported("load through %T", addr)
	return nil
}

func allScalar(vs []Value) bool {
	if len(vs) == 0 {
		return false
	}
	first, ok := vs[0].(*Term)
	if !ok {
		return false
	}
	for _, v := range vs[1:] {
		t, ok := v.(*Term)
		if !ok || t.sort != first.sort {
			return false
		}
	}
	return true
}

// elemAddr resolves base[idx] for a window of cells, handling symbolic idx.
func (in *Interp) elemAddr(elems []Value, idxV Value, it types.Type, where string) Value {
	idx := in.toIndex(idxV, it)
	n := len(elems)
	if idx.IsConst() {
		if idx.val.Cmp(big.NewInt(int64(n))) >= 0 {
			panic(runtimeError{fmt.Sprintf("runtime error: index out of range [%s] with length %d", toSigned(idx.val, 64), n)})
		}
		return &elems[idx.val.Int64()]
	}
	inRange := in.tt.BvUlt(idx, in.tt.BVU(uint64(n), 64))
	if !in.branch(inRange) {
		panic(runtimeError{fmt.Sprintf("runtime error: index out of range [symbolic] with length %d at %s", n, where)})
	}
	if n == 1 {
		return &elems[0]
	}
	if allScalar(elems) && n <= 4096 {
		return &SymPtr{Elems: elems, Idx: idx}
	}
	for i := 0; i < n-1; i++ {
		if in.branch(in.tt.Eq(idx, in.tt.BVU(uint64(i), 64))) {
			return &elems[i]
		}
	}
	return &elems[n-1]
}

// toIndex converts an index value of integer type it to a 64-bit term where
// negative values become huge unsigned ones.
func (in *Interp) toIndex(v Value, it types.Type) *Term {
	t, ok := v.(*Term)
	if !ok {
		in.unsupported("index of type %T", v)
	}
	_, signed, _ := intInfo(it)
	return in.tt.Resize(t, 64, signed)
}

func (in *Interp) indexAddr(fr *frame, instr *ssa.IndexAddr) Value {
	x := fr.get(instr.X)
	idx := fr.get(instr.Index)
	switch x := x.(type) {
	case SliceV:
		return in.elemAddr(x, idx, instr.Index.Type(), in.pos(instr.Pos()))
	case *Value:
		if x == nil {
			panic(runtimeError{"runtime error: invalid memory address or nil pointer dereference"})
		}
		a, ok := (*x).(Array)
		if !ok {
			in.unsupported("IndexAddr: cell holds %T", *x)
		}
		return in.elemAddr(a, idx, instr.Index.Type(), in.pos(instr.Pos()))
	}
	in.unsupported("IndexAddr on %T at %s", x, in.pos(instr.Pos()))
	return nil
}

func (in *Interp) index(fr *frame, instr *ssa.Index) Value {
	x := fr.get(instr.X)
	idx := fr.get(instr.Index)
	switch x := x.(type) {
	case Array:
		return in.load(in.elemAddr(x, idx, instr.Index.Type(), in.pos(instr.Pos())))
	case string:
		i := in.toIndex(idx, instr.Index.Type())
		if i.IsConst() {
			if i.val.Cmp(big.NewInt(int64(len(x)))) >= 0 {
				panic(runtimeError{fmt.Sprintf("runtime error: index out of range [%s] with length %d", toSigned(i.val, 64), len(x))})
			}
			return in.tt.BVU(uint64(x[i.val.Int64()]), 8)
		}
		s := in.toSymStr(x)
		elems := make([]Value, len(s.B))
		for k, b := range s.B {
			elems[k] = b
		}
		return in.load(in.elemAddr(elems, idx, instr.Index.Type(), in.pos(instr.Pos())))
	case *SymStr:
		elems := make([]Value, len(x.B))
		for k, b := range x.B {
			elems[k] = b
		}
		return in.load(in.elemAddr(elems, idx, instr.Index.Type(), in.pos(instr.Pos())))
	}
	in.unsupported("Index on %T", x)
	return nil
}

func (in *Interp) lookup(instr *ssa.Lookup, x, idx Value) Value {
	switch x := x.(type) {
	case *Map:
		var v Value
		ok := false
		if i := in.mapFind(x, idx); i >= 0 {
			v = copyVal(x.Vals[i])
			ok = true
		} else {
			v = in.zero(instr.X.Type().Underlying().(*types.Map).Elem())
		}
		if instr.CommaOk {
			return Tuple{v, in.tt.Bool(ok)}
		}
		return v
	case string, *SymStr:
		// string indexing is emitted as Lookup
		var elems []Value
		s := in.toSymStr(x)
		i := in.toIndex(idx, instr.Index.Type())
		if i.IsConst() {
			if i.val.Cmp(big.NewInt(int64(len(s.B)))) >= 0 {
				panic(runtimeError{fmt.Sprintf("runtime error: index out of range [%s] with length %d", toSigned(i.val, 64), len(s.B))})
			}
			return s.B[i.val.Int64()]
		}
		elems = make([]Value, len(s.B))
		for k, b := range s.B {
			elems[k] = b
		}
		return in.load(in.elemAddr(elems, idx, instr.Index.Type(), in.pos(instr.Pos())))
	}
	in.unsupported("Lookup on %T", x)
	return nil
}

func (in *Interp) typeAssert(instr *ssa.TypeAssert, xv Value) Value {
	x, ok := xv.(Iface)
	if !ok {
		in.unsupported("TypeAssert on %T at %s", xv, in.pos(instr.Pos()))
	}
	var v Value
	err := ""
	if idst, ok := instr.AssertedType.Underlying().(*types.Interface); ok {
		if x.T == nil {
			err = "interface conversion: interface is nil, not " + instr.AssertedType.String()
		} else if !types.Implements(x.T, idst) {
			err = fmt.Sprintf("interface conversion: %v is not %v: missing method", x.T, instr.AssertedType)
		} else {
			v = x
		}
	} else {
		if x.T == nil {
			err = "interface conversion: interface is nil, not " + instr.AssertedType.String()
		} else if !types.Identical(x.T, instr.AssertedType) {
			err = fmt.Sprintf("interface conversion: interface is %v, not %v", x.T, instr.AssertedType)
		} else {
			v = copyVal(x.V)
		}
	}
	if err != "" {
		if !instr.CommaOk {
			panic(runtimeError{err})
		}
		return Tuple{in.zero(instr.AssertedType), in.tt.False}
	}
	if instr.CommaOk {
		return Tuple{v, in.tt.True}
	}
	return v
}

// ---------------------------------------------------------------- calls

func (in *Interp) prepareCall(fr *frame, call *ssa.CallCommon) (fn Value, args []Value) {
	v := fr.get(call.Value)
	if call.Method == nil {
		fn = v
	} else {
		switch recv := v.(type) {
		case Iface:
			if recv.T == nil {
				if in.isHarnessModelWrapper(fr.fn) {
					// a harness model embeds the interface it implements partially; reaching a method it does not
					// define is a gap of the environment model, not a panic of the code under check
					in.unsupported("harness model %s does not implement %s", fr.fn.Signature.Recv().Type(), call.Method.Name())
				}
				chain := ""
				for f, k := fr, 0; f != nil && k < 8; f, k = f.caller, k+1 {
					chain += " < " + f.fn.Name()
				}
				panic(runtimeError{fmt.Sprintf("runtime error: invalid memory address or nil pointer dereference (method call %s on nil interface;%s)", call.Method.Name(), chain)})
			}
			if _, isP := recv.V.(Poison); isP {
				fn = &poisonCall{call.Method}
				break
			}
			f := in.prog.LookupMethod(recv.T, call.Method.Pkg(), call.Method.Name())
			if f == nil {
				panic(fmt.Sprintf("method set for dynamic type %v does not contain %s", recv.T, call.Method))
			}
			fn = f
			args = append(args, recv.V)
		case Poison:
			fn = &poisonCall{call.Method}
		default:
			in.unsupported("invoke on %T", v)
		}
	}
	for _, a := range call.Args {
		args = append(args, fr.get(a))
	}
	return
}

type poisonCall struct{ m *types.Func }

func (in *Interp) isHarnessModelWrapper(fn *ssa.Function) bool {
	if fn == nil || fn.Synthetic == "" || fn.Signature.Recv() == nil {
		return false
	}
	t := fn.Signature.Recv().Type()
	if p, ok := t.(*types.Pointer); ok {
		t = p.Elem()
	}
	n, ok := types.Unalias(t).(*types.Named)
	if !ok {
		return false
	}
	pos := in.prog.Fset.Position(n.Obj().Pos())
	return strings.Contains(pos.Filename, "zz_verif_")
}

func (in *Interp) call(caller *frame, pos token.Pos, fn Value, args []Value) Value {
	switch fn := fn.(type) {
	case *ssa.Function:
		if fn == nil {
			panic(runtimeError{"runtime error: invalid memory address or nil pointer dereference (call of nil func)"})
		}
		return in.callSSA(caller, pos, fn, args, nil)
	case *Closure:
		if fn == nil {
			panic(runtimeError{"runtime error: invalid memory address or nil pointer dereference (call of nil func)"})
		}
		return in.callSSA(caller, pos, fn.Fn, args, fn.Env)
	case *ssa.Builtin:
		return in.callBuiltin(caller, pos, fn, args)
	case *poisonCall:
		return in.callPoison(fn.m)
	case Poison:
		if in.initDepth > 0 {
			return Poison{fn.Why}
		}
		in.unsupported("call of poisoned func value: %s", fn.Why)
	}
	in.unsupported("cannot call %T", fn)
	return nil
}

// callPoison handles a method call on a value that could not be built during
// package init (loggers, compiled regexps …).
func (in *Interp) callPoison(m *types.Func) Value {
	pk := ""
	if m.Pkg() != nil {
		pk = m.Pkg().Path()
	}
	if pk == "github.com/inconshreveable/log15" || in.initDepth > 0 {
		sig := m.Type().(*types.Signature)
		if pk != "github.com/inconshreveable/log15" {
			return Poison{"result of method on poisoned value " + m.FullName()}
		}
		return in.zeroResults(sig)
	}
	in.unsupported("method %s called on a value that package init could not build", m.FullName())
	return nil
}

func (in *Interp) zeroResults(sig *types.Signature) Value {
	switch sig.Results().Len() {
	case 0:
		return nil
	case 1:
		t := sig.Results().At(0).Type()
		if isNamed(t, "github.com/inconshreveable/log15", "Logger") {
			return Poison{"logger"}
		}
		return in.zero(t)
	}
	return in.zero(sig.Results())
}

func (in *Interp) callSSA(caller *frame, callpos token.Pos, fn *ssa.Function, args []Value, env []Value) Value {
	if ov, ok := in.overrides[fn]; ok {
		fn = ov
	}
	if in.initDepth > 0 && caller != nil && fn.Name() == "init" && fn.Synthetic == "package initializer" {
		// imported packages are initialised lazily, when one of their globals is touched
		return nil
	}
	intr, cached := in.intrCache[fn]
	if !cached {
		intr = in.findIntrinsic(fn)
		in.intrCache[fn] = intr
	}
	fr := &frame{in: in, caller: caller, fn: fn, callpos: callpos}
	if intr != nil {
		return intr(in, fr, fn, args)
	}
	if fn.Pkg != nil && !in.builtPkgs[fn.Pkg] {
		// Build() blocks until the package is completely built (another worker may be building it right now;
		// looking at fn.Blocks before that would race)
		fn.Pkg.Build()
		in.builtPkgs[fn.Pkg] = true
	}
	if fn.Blocks == nil {
		if in.initDepth > 0 {
			return Poison{"external function " + fn.String()}
		}
		in.unsupported("no body and no intrinsic for %s (called at %s)", fn.String(), in.pos(callpos))
	}
	if fn.TypeParams().Len() > 0 && len(fn.TypeArgs()) == 0 {
		in.unsupported("uninstantiated generic function %s", fn)
	}
	if in.initDepth == 0 {
		in.funcsSeen[fn] = true
	}
	in.depth++
	if in.depth > 400 {
		in.depth--
		in.unsupported("call depth exceeds 400 at %s", fn)
	}
	defer func() { in.depth-- }()
	fr.env = make(map[ssa.Value]Value, 16)
	fr.block = fn.Blocks[0]
	fr.locals = make([]Value, len(fn.Locals))
	for i, l := range fn.Locals {
		fr.locals[i] = in.zero(l.Type().Underlying().(*types.Pointer).Elem())
		fr.env[l] = &fr.locals[i]
	}
	for i, p := range fn.Params {
		fr.env[p] = args[i]
	}
	for i, fv := range fn.FreeVars {
		fr.env[fv] = env[i]
	}
	if in.initDepth > 0 && caller != nil {
		return in.runInitCallee(fr)
	}
	for fr.block != nil {
		in.runFrame(fr)
	}
	return fr.result
}

type poisonAbort struct{ msg string }

// runInitCallee runs a callee during package init; control flow that depends
// on a value init could not build makes the whole call yield Poison.
func (in *Interp) runInitCallee(fr *frame) (res Value) {
	defer func() {
		if r := recover(); r != nil {
			if pa, ok := r.(poisonAbort); ok {
				res = Poison{pa.msg}
				return
			}
			panic(r)
		}
	}()
	for fr.block != nil {
		in.runFrame(fr)
	}
	return fr.result
}

func (in *Interp) runFrame(fr *frame) {
	defer func() {
		if fr.block == nil {
			return
		}
		r := recover()
		if pe, ok := r.(pathEnd); ok {
			panic(pe)
		}
		switch r.(type) {
		case targetPanic, runtimeError:
		default:
			// interpreter-level condition: propagate as is
			panic(r)
		}
		fr.panicking = true
		fr.panic = r
		fr.runDefers()
		fr.block = fr.fn.Recover
		if fr.block == nil {
			// recovered in a function without named results: return zero values
			fr.result = in.zeroResults(fr.fn.Signature)
		}
	}()
	for {
		nonPhis := in.executePhis(fr)
		for _, instr := range nonPhis {
			in.steps++
			if in.steps&4095 == 0 && in.ex != nil && in.ex.stop && in.initDepth == 0 {
				panic(pathEnd{"time", "exploration stopped (time or path budget)"})
			}
			if in.steps > in.cfg.MaxSteps {
				panic(pathEnd{"steps", fmt.Sprintf("more than %d instructions on one path (in %s)", in.cfg.MaxSteps, fr.fn)})
			}
			if in.trace {
				if v, ok := instr.(ssa.Value); ok {
					fmt.Fprintf(os.Stderr, "%*s%s = %s\n", in.depth, "", v.Name(), instr)
				} else {
					fmt.Fprintf(os.Stderr, "%*s%s\n", in.depth, "", instr)
				}
			}
			var k continuation
			if in.initDepth > 0 {
				k = in.visitInit(fr, instr)
			} else {
				k = in.visitInstr(fr, instr)
			}
			if k == kReturn {
				return
			}
			if k == kJump {
				break
			}
		}
	}
}

// visitInit executes an instruction in tolerant (package init) mode: anything
// unsupported produces a Poison value instead of ending the path.
func (in *Interp) visitInit(fr *frame, instr ssa.Instruction) (k continuation) {
	defer func() {
		if r := recover(); r != nil {
			pe, ok := r.(pathEnd)
			if re, isRE := r.(runtime.Error); isRE {
				pe, ok = pathEnd{"unsupported", "engine: " + re.Error()}, true
			}
			if !ok || pe.kind != "unsupported" {
				panic(r)
			}
			if !strings.Contains(pe.msg, "oison") {
				in.warn("init: value at %s in %s could not be built: %s", in.pos(instr.Pos()), fr.fn, pe.msg)
			}
			switch instr.(type) {
			case *ssa.If, *ssa.Jump, *ssa.Return, *ssa.Panic:
				panic(poisonAbort{pe.msg})
			}
			if v, isV := instr.(ssa.Value); isV {
				fr.env[v] = Poison{pe.msg}
			}
			k = kNext
		}
	}()
	return in.visitInstr(fr, instr)
}

func (in *Interp) executePhis(fr *frame) []ssa.Instruction {
	firstNonPhi := -1
	for i, instr := range fr.block.Instrs {
		if _, ok := instr.(*ssa.Phi); !ok {
			firstNonPhi = i
			break
		}
	}
	nonPhis := fr.block.Instrs[firstNonPhi:]
	if firstNonPhi > 0 {
		phis := fr.block.Instrs[:firstNonPhi]
		predIndex := -1
		for i, p := range fr.block.Preds {
			if p == fr.prevBlock {
				predIndex = i
				break
			}
		}
		fr.phitemps = fr.phitemps[:0]
		for _, phi := range phis {
			fr.phitemps = append(fr.phitemps, fr.get(phi.(*ssa.Phi).Edges[predIndex]))
		}
		for i, phi := range phis {
			fr.env[phi.(*ssa.Phi)] = fr.phitemps[i]
		}
	}
	return nonPhis
}

func (in *Interp) doRecover(caller *frame) Value {
	if caller != nil && !caller.panicking && caller.caller != nil && caller.caller.panicking {
		caller.caller.panicking = false
		p := caller.caller.panic
		caller.caller.panic = nil
		switch p := p.(type) {
		case targetPanic:
			return p.v
		case runtimeError:
			return in.makeRuntimeError(p.msg)
		default:
			panic(fmt.Sprintf("unexpected panic type %T in recover()", p))
		}
	}
	return Iface{}
}

// makeRuntimeError builds an error interface value carrying msg.
func (in *Interp) makeRuntimeError(msg string) Value {
	return in.makeError(msg)
}

// makeError returns a fresh error value equivalent to errors.New(msg).
func (in *Interp) makeError(msg Value) Value {
	if in.errStrT == nil {
		p := in.prog.ImportedPackage("errors")
		if p == nil {
			in.unsupported("package errors not loaded")
		}
		in.errStrT = types.NewPointer(p.Type("errorString").Type())
	}
	cell := new(Value)
	*cell = Struct{msg}
	return Iface{T: in.errStrT, V: cell}
}
