package main

// gosym: bounded symbolic execution of one harness entry function of a Go
// package loaded from /repo's current working tree (plus overlay files).
//
//	gosym -repo /repo -pkg <import path> -entry <Func> -overlay <overlay.json> -out <result.json> [bounds…]

import (
	"encoding/json"
	"flag"
	"fmt"
	"io"
	"math/big"
	"os"
	"path/filepath"
	"sort"
	"strings"
	"time"

	"golang.org/x/tools/go/packages"
	"golang.org/x/tools/go/ssa"
	"golang.org/x/tools/go/ssa/ssautil"
)

type Result struct {
	Package      string                 `json:"package"`
	Entry        string                 `json:"entry"`
	Status       string                 `json:"status"` // holds | violated | inconclusive | error
	Paths        int                    `json:"paths"`
	Decisions    int                    `json:"decisions"`
	MaxDepth     int                    `json:"max_depth"`
	Queries      int                    `json:"queries"`
	SolverS      float64                `json:"solver_s"`
	WallS        float64                `json:"wall_s"`
	LoadS        float64                `json:"load_s"`
	Ended        map[string]int         `json:"ended"`
	EndMsgs      map[string]int         `json:"end_msgs,omitempty"`
	Asserts      map[string]*AssertStat `json:"asserts"`
	Reach        map[string]bool        `json:"reach"`
	Violations   []*Violation           `json:"violations"`
	Funcs        []string               `json:"functions_encoded"`
	Warnings     []string               `json:"warnings,omitempty"`
	Assumptions  []string               `json:"assumptions"`
	Samples      []string               `json:"samples"`
	Bounds       map[string]interface{} `json:"bounds"`
	Solver       string                 `json:"solver"`
	PerSolver    map[string]int         `json:"queries_per_solver"`
	Outs         []string               `json:"outs,omitempty"`
	Inconclusive []string               `json:"inconclusive,omitempty"`
	Error        string                 `json:"error,omitempty"`
}

func fatal(res *Result, out string, format string, args ...interface{}) {
	res.Status = "error"
	res.Error = fmt.Sprintf(format, args...)
	writeResult(res, out)
	fmt.Fprintln(os.Stderr, "gosym:", res.Error)
	os.Exit(2)
}

func writeResult(res *Result, out string) {
	b, _ := json.MarshalIndent(res, "", " ")
	if out == "" || out == "-" {
		os.Stdout.Write(b)
		fmt.Println()
		return
	}
	os.WriteFile(out, b, 0o644)
}

func copyFile(src, dst string) error {
	in, err := os.Open(src)
	if err != nil {
		return err
	}
	defer in.Close()
	out, err := os.Create(dst)
	if err != nil {
		return err
	}
	defer out.Close()
	_, err = io.Copy(out, in)
	return err
}

func main() {
	repo := flag.String("repo", "/repo", "repository root")
	pkgPath := flag.String("pkg", "", "import path of the package holding the harness")
	entry := flag.String("entry", "", "harness entry function")
	overlayJSON := flag.String("overlay", "", "overlay json ({\"Replace\":{virtual:real}})")
	out := flag.String("out", "-", "result json")
	unwind := flag.Int("unwind", 8, "max symbolic decisions per branch instruction per activation")
	maxSteps := flag.Int64("max-steps", 20_000_000, "max instructions per path")
	maxAlloc := flag.Int("max-alloc", 1<<22, "allocation cap (elements) treated as a runtime panic")
	maxPaths := flag.Int("max-paths", 200000, "path budget (exceeding = inconclusive)")
	maxDepth := flag.Int("max-depth", 4000, "max decisions per path")
	maxValues := flag.Int("max-values", 64, "max feasible values when concretising")
	workers := flag.Int("workers", 4, "parallel workers (one solver each)")
	solver := flag.String("solver", "z3,z3-new-int", "comma-separated portfolio: z3 | z3-new | cvc5, each optionally with -int (bit-vectors as integers)")
	cross := flag.String("cross", "", "extra solvers (fresh process) tried when the whole portfolio says unknown")
	timeout := flag.Int("timeout-ms", 20000, "per-query solver timeout")
	verbose := flag.Bool("v", false, "verbose")
	params := flag.String("params", "", "comma-separated name=int harness parameters (verifParam)")
	keepGoing := flag.Bool("keep-going", false, "keep exploring after the first violation outside known-finding regions")
	maxTime := flag.Int("max-time", 0, "stop exploring after this many seconds (result is then inconclusive)")
	ignoreGo := flag.Bool("ignore-go", false, "ignore go statements instead of ending the path")
	pin := flag.String("pin", "", "json file name→value pinning nondet values (concrete run)")
	overrides := flag.String("override", "", "comma-separated from=to function overrides")
	tags := flag.String("tags", "verif", "build tags")
	flag.Parse()

	res := &Result{Package: *pkgPath, Entry: *entry, Solver: *solver, Bounds: map[string]interface{}{}}
	start := time.Now()

	cfg := &Config{Unwind: *unwind, MaxSteps: *maxSteps, MaxAlloc: *maxAlloc, MaxPaths: *maxPaths, MaxDepth: *maxDepth,
		MaxValues: *maxValues, Workers: *workers, Solver: *solver, TimeoutMs: *timeout, Verbose: *verbose, IgnoreGo: *ignoreGo,
		Overrides: map[string]string{}, MaxTimeS: *maxTime, KeepGoing: *keepGoing}
	if *cross != "" {
		for _, c := range strings.Split(*cross, ",") {
			if c != *solver {
				cfg.CrossSolver = append(cfg.CrossSolver, c)
			}
		}
	}
	cfg.Params = map[string]int64{}
	if *params != "" {
		for _, kv := range strings.Split(*params, ",") {
			p := strings.SplitN(kv, "=", 2)
			if len(p) == 2 {
				var v int64
				fmt.Sscan(p[1], &v)
				cfg.Params[p[0]] = v
			}
		}
		res.Bounds["params"] = *params
	}
	if *overrides != "" {
		for _, kv := range strings.Split(*overrides, ",") {
			p := strings.SplitN(kv, "=", 2)
			if len(p) == 2 {
				cfg.Overrides[p[0]] = p[1]
			}
		}
	}
	if *pin != "" {
		b, err := os.ReadFile(*pin)
		if err != nil {
			fatal(res, *out, "pin: %v", err)
		}
		m := map[string]string{}
		if err := json.Unmarshal(b, &m); err != nil {
			fatal(res, *out, "pin: %v", err)
		}
		cfg.Pin = map[string]*big.Int{}
		for k, v := range m {
			bi, ok := new(big.Int).SetString(v, 0)
			if !ok {
				fatal(res, *out, "pin: bad value %q for %s", v, k)
			}
			cfg.Pin[k] = bi
		}
	}
	for k, v := range map[string]interface{}{"unwind": *unwind, "max_paths": *maxPaths, "max_depth": *maxDepth, "max_values": *maxValues,
		"max_steps": *maxSteps, "query_timeout_ms": *timeout} {
		res.Bounds[k] = v
	}

	// scratch modfile so that go never rewrites /repo/go.mod
	scratch, err := os.MkdirTemp("", "gosym-mod-")
	if err != nil {
		fatal(res, *out, "mkdtemp: %v", err)
	}
	defer os.RemoveAll(scratch)
	for _, f := range []string{"go.mod", "go.sum"} {
		if err := copyFile(filepath.Join(*repo, f), filepath.Join(scratch, f)); err != nil {
			fatal(res, *out, "copy %s: %v", f, err)
		}
	}
	overlay := map[string][]byte{}
	if *overlayJSON != "" {
		b, err := os.ReadFile(*overlayJSON)
		if err != nil {
			fatal(res, *out, "overlay: %v", err)
		}
		var ov struct{ Replace map[string]string }
		if err := json.Unmarshal(b, &ov); err != nil {
			fatal(res, *out, "overlay: %v", err)
		}
		for virt, real := range ov.Replace {
			c, err := os.ReadFile(real)
			if err != nil {
				fatal(res, *out, "overlay file: %v", err)
			}
			overlay[virt] = c
		}
	}
	env := append(os.Environ(), "GOFLAGS=-mod=mod", "GOPROXY=off", "GOSUMDB=off", "GOTOOLCHAIN=local")
	pcfg := &packages.Config{
		Mode: packages.NeedName | packages.NeedFiles | packages.NeedCompiledGoFiles | packages.NeedImports | packages.NeedDeps |
			packages.NeedTypes | packages.NeedTypesSizes | packages.NeedSyntax | packages.NeedTypesInfo | packages.NeedModule,
		Dir:        *repo,
		Env:        env,
		BuildFlags: []string{"-modfile=" + filepath.Join(scratch, "go.mod"), "-tags=" + *tags},
		Overlay:    overlay,
	}
	pkgs, err := packages.Load(pcfg, *pkgPath)
	os.RemoveAll(scratch) // only the loader needs the scratch modfile (the exits below bypass deferred calls)
	if err != nil {
		fatal(res, *out, "load: %v", err)
	}
	nerr := 0
	var errs []string
	packages.Visit(pkgs, nil, func(p *packages.Package) {
		for _, e := range p.Errors {
			nerr++
			if len(errs) < 10 {
				errs = append(errs, e.Error())
			}
		}
	})
	if nerr > 0 {
		fatal(res, *out, "package errors (%d): %s", nerr, strings.Join(errs, "; "))
	}
	prog, spkgs := ssautil.AllPackages(pkgs, ssa.InstantiateGenerics)
	if len(spkgs) == 0 || spkgs[0] == nil {
		fatal(res, *out, "no ssa package for %s", *pkgPath)
	}
	main := spkgs[0]
	main.Build()
	res.LoadS = time.Since(start).Seconds()
	fn := main.Func(*entry)
	if fn == nil {
		fatal(res, *out, "entry %s not found in %s", *entry, *pkgPath)
	}

	job := &Job{Prog: prog, Entry: fn, Cfg: cfg}
	ex := RunJob(job)

	res.Paths = ex.Paths
	res.Decisions = ex.Decisions
	res.MaxDepth = ex.MaxDepthSeen
	res.Queries = ex.Queries
	res.SolverS = ex.SolverTime.Seconds()
	res.Ended = ex.Ended
	res.EndMsgs = ex.EndMsgs
	res.Asserts = ex.Asserts
	res.Reach = map[string]bool{}
	for l := range ex.ReachDecl {
		res.Reach[l] = ex.Reached[l]
	}
	res.Violations = ex.Violations
	for f := range ex.Funcs {
		res.Funcs = append(res.Funcs, f)
	}
	sort.Strings(res.Funcs)
	for w := range ex.Warnings {
		res.Warnings = append(res.Warnings, w)
	}
	sort.Strings(res.Warnings)
	for a := range ex.Assumes {
		res.Assumptions = append(res.Assumptions, a)
	}
	sort.Strings(res.Assumptions)
	res.Samples = ex.Samples
	res.PerSolver = ex.PerSolver
	res.Outs = ex.Outs
	res.WallS = time.Since(start).Seconds()

	// verdict
	for _, k := range []string{"unsupported", "unwind", "steps", "internal", "solver-error", "panic-unconfirmed", "path-budget", "time-budget", "time"} {
		if ex.Ended[k] > 0 {
			res.Inconclusive = append(res.Inconclusive, fmt.Sprintf("%s×%d", k, ex.Ended[k]))
		}
	}
	for l, st := range ex.Asserts {
		if st.Unknown > 0 {
			res.Inconclusive = append(res.Inconclusive, fmt.Sprintf("assert %q: solver unknown ×%d", l, st.Unknown))
		}
	}
	for l := range ex.ReachDecl {
		if !ex.Reached[l] {
			res.Inconclusive = append(res.Inconclusive, fmt.Sprintf("vacuity: label %q not reachable", l))
		}
	}
	if len(ex.Asserts) == 0 && len(ex.ReachDecl) == 0 {
		res.Inconclusive = append(res.Inconclusive, "harness made no assertion")
	}
	sort.Strings(res.Inconclusive)
	switch {
	case len(ex.Violations) > 0:
		res.Status = "violated"
	case len(res.Inconclusive) > 0:
		res.Status = "inconclusive"
	default:
		res.Status = "holds"
	}
	writeResult(res, *out)
	if *verbose || *out != "-" {
		fmt.Fprintf(os.Stderr, "gosym %s.%s: %s paths=%d queries=%d solver=%.1fs wall=%.1fs %v\n", *pkgPath, *entry, res.Status, res.Paths, res.Queries, res.SolverS, res.WallS, res.Inconclusive)
	}
	switch res.Status {
	case "holds":
		os.Exit(0)
	case "violated":
		os.Exit(1)
	default:
		os.Exit(3)
	}
}
