package main

import (
	"fmt"
	"go/token"
	"go/types"
	"math"
	"math/big"
	"os"
	"strings"
	"unicode/utf8"

	"golang.org/x/tools/go/ssa"
)

func (in *Interp) unop(fr *frame, instr *ssa.UnOp, x Value) Value {
	switch instr.Op {
	case token.MUL:
		return in.load(x)
	case token.SUB:
		switch x := x.(type) {
		case *Term:
			return in.tt.BvNeg(x)
		case Float:
			return Float{-x.V, x.Bits}
		}
	case token.NOT:
		if t, ok := x.(*Term); ok {
			return in.tt.Not(t)
		}
	case token.XOR:
		if t, ok := x.(*Term); ok {
			return in.tt.BvNot(t)
		}
	case token.ARROW:
		in.unsupported("channel receive at %s", in.pos(instr.Pos()))
	}
	in.unsupported("unop %s on %T", instr.Op, x)
	return nil
}

func (in *Interp) binop(op token.Token, t types.Type, x, y Value) Value {
	tt := in.tt
	_, xb := x.(BitLenV)
	_, yb := y.(BitLenV)
	if !xb && !yb {
		switch op {
		case token.EQL:
			return in.equal(t, x, y)
		case token.NEQ:
			return tt.Not(in.equal(t, x, y))
		}
	}
	if bl, ok := x.(BitLenV); ok {
		if c, isT := y.(*Term); isT && c.IsConst() {
			if r := in.bitLenCmp(op, bl, toSigned(c.val, c.sort.W).Int64()); r != nil {
				return r
			}
		}
		x = in.bitLenTerm(bl)
	}
	if bl, ok := y.(BitLenV); ok {
		if c, isT := x.(*Term); isT && c.IsConst() {
			flip := map[token.Token]token.Token{token.LSS: token.GTR, token.GTR: token.LSS, token.LEQ: token.GEQ, token.GEQ: token.LEQ, token.EQL: token.EQL, token.NEQ: token.NEQ}
			if f, ok := flip[op]; ok {
				if r := in.bitLenCmp(f, bl, toSigned(c.val, c.sort.W).Int64()); r != nil {
					return r
				}
			}
		}
		y = in.bitLenTerm(bl)
	}
	switch xv := x.(type) {
	case *Term:
		yv, ok := y.(*Term)
		if !ok {
			in.unsupported("binop %s on %T,%T", op, x, y)
		}
		if xv.sort.K == SBool {
			switch op {
			case token.LAND, token.AND:
				return tt.And(xv, yv)
			case token.LOR, token.OR:
				return tt.Or(xv, yv)
			}
			in.unsupported("bool binop %s", op)
		}
		_, signed, _ := intInfo(t)
		w := xv.sort.W
		switch op {
		case token.EQL:
			return tt.Eq(xv, yv)
		case token.NEQ:
			return tt.Not(tt.Eq(xv, yv))
		case token.ADD:
			return tt.BvAdd(xv, yv)
		case token.SUB:
			return tt.BvSub(xv, yv)
		case token.MUL:
			return tt.BvMul(xv, yv)
		case token.QUO, token.REM:
			isZero := tt.Eq(yv, tt.BVU(0, w))
			if isZero.IsTrue() || (!isZero.IsFalse() && in.branch(isZero)) {
				panic(runtimeError{"runtime error: integer divide by zero"})
			}
			if op == token.QUO {
				if signed {
					return tt.BvSdiv(xv, yv)
				}
				return tt.BvUdiv(xv, yv)
			}
			if signed {
				return tt.BvSrem(xv, yv)
			}
			return tt.BvUrem(xv, yv)
		case token.AND:
			return tt.BvAnd(xv, yv)
		case token.OR:
			return tt.BvOr(xv, yv)
		case token.XOR:
			return tt.BvXor(xv, yv)
		case token.AND_NOT:
			return tt.BvAnd(xv, tt.BvNot(yv))
		case token.SHL, token.SHR:
			// y may have any integer width; the ssa builder guarantees an
			// unsigned or non-negative-checked count (negative → panic).
			cnt := in.shiftCount(yv, w)
			if op == token.SHL {
				return tt.BvShl(xv, cnt)
			}
			if signed {
				return tt.BvAshr(xv, cnt)
			}
			return tt.BvLshr(xv, cnt)
		case token.LSS:
			if signed {
				return tt.BvSlt(xv, yv)
			}
			return tt.BvUlt(xv, yv)
		case token.LEQ:
			if signed {
				return tt.BvSle(xv, yv)
			}
			return tt.BvUle(xv, yv)
		case token.GTR:
			if signed {
				return tt.BvSlt(yv, xv)
			}
			return tt.BvUlt(yv, xv)
		case token.GEQ:
			if signed {
				return tt.BvSle(yv, xv)
			}
			return tt.BvUle(yv, xv)
		}
	case Float:
		yv, ok := y.(Float)
		if !ok {
			in.unsupported("float binop with %T", y)
		}
		var r float64
		switch op {
		case token.ADD:
			r = xv.V + yv.V
		case token.SUB:
			r = xv.V - yv.V
		case token.MUL:
			r = xv.V * yv.V
		case token.QUO:
			r = xv.V / yv.V
		case token.LSS:
			return tt.Bool(xv.V < yv.V)
		case token.LEQ:
			return tt.Bool(xv.V <= yv.V)
		case token.GTR:
			return tt.Bool(xv.V > yv.V)
		case token.GEQ:
			return tt.Bool(xv.V >= yv.V)
		default:
			in.unsupported("float binop %s", op)
		}
		if xv.Bits == 32 {
			r = float64(float32(r))
		}
		return Float{r, xv.Bits}
	case string:
		if ys, ok := y.(string); ok {
			switch op {
			case token.ADD:
				return xv + ys
			case token.LSS:
				return tt.Bool(xv < ys)
			case token.LEQ:
				return tt.Bool(xv <= ys)
			case token.GTR:
				return tt.Bool(xv > ys)
			case token.GEQ:
				return tt.Bool(xv >= ys)
			}
		}
		return in.symStrBinop(op, in.toSymStr(x), in.toSymStr(y))
	case *SymStr:
		return in.symStrBinop(op, xv, in.toSymStr(y))
	}
	in.unsupported("binop %s on %T,%T", op, x, y)
	return nil
}

// bitLenCmp: BitLen(x) op k as one integer comparison on |x|.
func (in *Interp) bitLenCmp(op token.Token, bl BitLenV, k int64) Value {
	tt := in.tt
	ge := func(n int64) *Term { // BitLen >= n  <=>  |x| >= 2^(n-1)   (n >= 1)
		if n <= 0 {
			return tt.True
		}
		if n > 1<<20 {
			return tt.False
		}
		return tt.ILe(tt.IntConst(pow2(int(n-1))), bl.Abs)
	}
	switch op {
	case token.GTR:
		return ge(k + 1)
	case token.GEQ:
		return ge(k)
	case token.LSS:
		return tt.Not(ge(k))
	case token.LEQ:
		return tt.Not(ge(k + 1))
	case token.EQL:
		return tt.And(ge(k), tt.Not(ge(k+1)))
	case token.NEQ:
		return tt.Not(tt.And(ge(k), tt.Not(ge(k+1))))
	}
	return nil
}

func (in *Interp) bitLenTerm(bl BitLenV) *Term {
	tt := in.tt
	r := tt.BVI(1<<20, 64)
	for k := 520; k >= 0; k-- {
		r = tt.Ite(tt.ILt(bl.Abs, tt.IntConst(pow2(k))), tt.BVI(int64(k), 64), r)
	}
	return r
}

func (in *Interp) symStrBinop(op token.Token, a, b *SymStr) Value {
	tt := in.tt
	switch op {
	case token.ADD:
		r := &SymStr{B: append(append([]*Term{}, a.B...), b.B...)}
		return normStr(r)
	case token.LSS:
		return in.symStrLess(a, b)
	case token.GTR:
		return in.symStrLess(b, a)
	case token.LEQ:
		return tt.Not(in.symStrLess(b, a))
	case token.GEQ:
		return tt.Not(in.symStrLess(a, b))
	}
	in.unsupported("string binop %s", op)
	return nil
}

// shiftCount normalises a shift count to width w (saturating at w).
func (in *Interp) shiftCount(c *Term, w int) *Term {
	tt := in.tt
	cw := c.sort.W
	if cw == w {
		return c
	}
	if cw < w {
		return tt.Zext(c, w)
	}
	big := tt.BvUle(tt.BVU(uint64(w), cw), c)
	return tt.Ite(big, tt.BVU(uint64(w), w), tt.Extract(c, w-1, 0))
}

// ---------------------------------------------------------------- conversions

func (in *Interp) conv(tdst, tsrc types.Type, x Value) Value {
	tt := in.tt
	ud := tdst.Underlying()
	us := tsrc.Underlying()
	if p, ok := x.(Poison); ok {
		in.unsupported("conversion of poisoned value: %s", p.Why)
	}
	if bl, ok := x.(BitLenV); ok {
		if dw, _, isInt := intInfo(ud); isInt && dw == 64 {
			return bl
		}
		x = in.bitLenTerm(bl)
	}
	switch ud := ud.(type) {
	case *types.Basic:
		if dw, _, ok := intInfo(ud); ok {
			switch xv := x.(type) {
			case *Term:
				_, ssigned, _ := intInfo(us)
				return tt.Resize(xv, dw, ssigned)
			case SymFloat:
				return tt.Resize(xv.T, dw, true)
			case Float:
				f := math.Trunc(xv.V)
				bf := new(big.Float).SetFloat64(f)
				bi, _ := bf.Int(nil)
				return tt.BVConst(bi, dw)
			case *Value: // unsafe.Pointer → uintptr
				in.unsupported("pointer to integer conversion")
			}
		}
		if bits, ok := isFloat(ud); ok {
			switch xv := x.(type) {
			case *Term:
				if !xv.IsConst() {
					in.unsupported("symbolic integer to float conversion")
				}
				_, ssigned, _ := intInfo(us)
				v := xv.val
				if ssigned {
					v = toSigned(v, xv.sort.W)
				}
				f, _ := new(big.Float).SetInt(v).Float64()
				if bits == 32 {
					f = float64(float32(f))
				}
				return Float{f, bits}
			case Float:
				f := xv.V
				if bits == 32 {
					f = float64(float32(f))
				}
				return Float{f, bits}
			}
		}
		if ud.Info()&types.IsString != 0 {
			switch xv := x.(type) {
			case string, *SymStr:
				return x
			case *Term: // integer → string (rune)
				if !xv.IsConst() {
					in.unsupported("symbolic rune to string")
				}
				return string(rune(toSigned(xv.val, xv.sort.W).Int64()))
			case SliceV:
				// []byte or []rune → string
				if sl, ok := us.(*types.Slice); ok {
					if b, ok := sl.Elem().Underlying().(*types.Basic); ok && (b.Kind() == types.Int32) {
						var sb strings.Builder
						for _, e := range xv {
							t := e.(*Term)
							if !t.IsConst() {
								in.unsupported("symbolic []rune to string")
							}
							sb.WriteRune(rune(toSigned(t.val, 32).Int64()))
						}
						return sb.String()
					}
				}
				s := &SymStr{B: make([]*Term, len(xv))}
				for i, e := range xv {
					s.B[i] = e.(*Term)
				}
				return normStr(s)
			}
		}
		if ud.Kind() == types.UnsafePointer {
			in.unsupported("conversion to unsafe.Pointer")
		}
	case *types.Slice:
		switch xv := x.(type) {
		case string:
			if b, ok := ud.Elem().Underlying().(*types.Basic); ok && b.Kind() == types.Int32 {
				var r SliceV
				for _, c := range xv {
					r = append(r, tt.BVI(int64(c), 32))
				}
				if r == nil {
					r = SliceV{}
				}
				return r
			}
			r := make(SliceV, len(xv))
			for i := 0; i < len(xv); i++ {
				r[i] = tt.BVU(uint64(xv[i]), 8)
			}
			return r
		case *SymStr:
			r := make(SliceV, len(xv.B))
			for i, b := range xv.B {
				r[i] = b
			}
			return r
		case SliceV:
			return x
		}
	case *types.Pointer:
		if _, ok := x.(*Value); ok {
			return x // unsafe.Pointer ↔ *T: keep the cell (type punning is not modelled)
		}
	}
	in.unsupported("conversion %v -> %v of %T", tsrc, tdst, x)
	return nil
}

// ---------------------------------------------------------------- slicing

func (in *Interp) slice(x, lo, hi, max Value) Value {
	bound := func(v Value, dflt int) int {
		if v == nil {
			return dflt
		}
		return int(in.concretizeInt(v, "slice bound", ""))
	}
	switch x := x.(type) {
	case string:
		l, h := bound(lo, 0), bound(hi, len(x))
		if l < 0 || h > len(x) || l > h {
			panic(runtimeError{fmt.Sprintf("runtime error: slice bounds out of range [%d:%d] with length %d", l, h, len(x))})
		}
		return x[l:h]
	case *SymStr:
		l, h := bound(lo, 0), bound(hi, len(x.B))
		if l < 0 || h > len(x.B) || l > h {
			panic(runtimeError{fmt.Sprintf("runtime error: slice bounds out of range [%d:%d] with length %d", l, h, len(x.B))})
		}
		return normStr(&SymStr{B: x.B[l:h]})
	case SliceV:
		l := bound(lo, 0)
		h := bound(hi, len(x))
		m := bound(max, cap(x))
		if l < 0 || h > cap(x) || l > h || m > cap(x) || h > m {
			panic(runtimeError{fmt.Sprintf("runtime error: slice bounds out of range [%d:%d:%d] with capacity %d", l, h, m, cap(x))})
		}
		if x == nil {
			return SliceV(nil)
		}
		return x[l:h:m]
	case *Value:
		if x == nil {
			panic(runtimeError{"runtime error: invalid memory address or nil pointer dereference"})
		}
		a, ok := (*x).(Array)
		if !ok {
			in.unsupported("slice of cell holding %T", *x)
		}
		l := bound(lo, 0)
		h := bound(hi, len(a))
		m := bound(max, len(a))
		if l < 0 || h > len(a) || l > h || m > len(a) || h > m {
			panic(runtimeError{fmt.Sprintf("runtime error: slice bounds out of range [%d:%d:%d] with length %d", l, h, m, len(a))})
		}
		return SliceV(a[l:h:m])
	}
	in.unsupported("slice of %T", x)
	return nil
}

// ---------------------------------------------------------------- builtins

func (in *Interp) callBuiltin(caller *frame, pos token.Pos, fn *ssa.Builtin, args []Value) Value {
	tt := in.tt
	switch fn.Name() {
	case "append":
		if len(args) == 1 {
			return args[0]
		}
		dst := args[0].(SliceV)
		var src SliceV
		switch s := args[1].(type) {
		case SliceV:
			src = s
		case string, *SymStr:
			ss := in.toSymStr(s)
			src = make(SliceV, len(ss.B))
			for i, b := range ss.B {
				src[i] = b
			}
		default:
			in.unsupported("append of %T", s)
		}
		if len(src) == 0 {
			return dst
		}
		n := len(dst)
		if n+len(src) <= cap(dst) {
			r := dst[:n+len(src)]
			for i, v := range src {
				in.logCell(&r[n+i])
				r[n+i] = copyVal(v)
			}
			return r
		}
		newcap := 2 * cap(dst)
		if newcap < n+len(src) {
			newcap = n + len(src)
		}
		r := make(SliceV, n+len(src), newcap)
		copy(r, dst)
		for i, v := range src {
			r[n+i] = copyVal(v)
		}
		// spare capacity must hold zero values of the element type; they are
		// written before being read by any later append, so nil is fine.
		return r
	case "copy":
		dst := args[0].(SliceV)
		var src SliceV
		switch s := args[1].(type) {
		case SliceV:
			src = s
		case string, *SymStr:
			ss := in.toSymStr(s)
			src = make(SliceV, len(ss.B))
			for i, b := range ss.B {
				src[i] = b
			}
		}
		n := len(dst)
		if len(src) < n {
			n = len(src)
		}
		tmp := make([]Value, n)
		for i := 0; i < n; i++ {
			tmp[i] = copyVal(src[i])
		}
		for i := 0; i < n; i++ {
			in.store(&dst[i], tmp[i])
		}
		return tt.BVI(int64(n), 64)
	case "close":
		in.unsupported("close(chan)")
	case "delete":
		m, _ := args[0].(*Map)
		if m != nil {
			in.mapDelete(m, args[1])
		}
		return nil
	case "clear":
		switch x := args[0].(type) {
		case *Map:
			if x != nil {
				for i := range x.Keys {
					if !x.Dead[i] {
						in.mapDelete(x, x.Keys[i])
					}
				}
			}
		case SliceV:
			in.unsupported("clear(slice)")
		}
		return nil
	case "print", "println":
		return nil
	case "len":
		switch x := args[0].(type) {
		case string:
			return tt.BVI(int64(len(x)), 64)
		case *SymStr:
			return tt.BVI(int64(len(x.B)), 64)
		case Array:
			return tt.BVI(int64(len(x)), 64)
		case *Value:
			if x == nil {
				return tt.BVI(0, 64)
			}
			return tt.BVI(int64(len((*x).(Array))), 64)
		case SliceV:
			return tt.BVI(int64(len(x)), 64)
		case *Map:
			if x == nil {
				return tt.BVI(0, 64)
			}
			return tt.BVI(int64(x.N), 64)
		case *Chan:
			in.unsupported("len(chan)")
		}
		in.unsupported("len of %T", args[0])
	case "cap":
		switch x := args[0].(type) {
		case Array:
			return tt.BVI(int64(len(x)), 64)
		case *Value:
			if x == nil {
				return tt.BVI(0, 64)
			}
			return tt.BVI(int64(len((*x).(Array))), 64)
		case SliceV:
			return tt.BVI(int64(cap(x)), 64)
		}
		in.unsupported("cap of %T", args[0])
	case "min", "max":
		r := args[0]
		for _, a := range args[1:] {
			var t types.Type
			if sig, ok := fn.Type().(*types.Signature); ok && sig.Params().Len() > 0 {
				t = sig.Params().At(0).Type()
			}
			var less Value
			if fn.Name() == "min" {
				less = in.binop(token.LSS, t, a, r)
			} else {
				less = in.binop(token.GTR, t, a, r)
			}
			lt := less.(*Term)
			if rt, ok := r.(*Term); ok {
				r = tt.Ite(lt, a.(*Term), rt)
			} else if lt.IsConst() {
				if lt.IsTrue() {
					r = a
				}
			} else {
				in.unsupported("symbolic min/max on %T", r)
			}
		}
		return r
	case "panic":
		panic(targetPanic{args[0]})
	case "recover":
		return in.doRecover(caller)
	case "ssa:wrapnilchk":
		recv := args[0]
		if p, ok := recv.(*Value); ok && p == nil {
			panic(runtimeError{fmt.Sprintf("value method %s.%s called using nil pointer", describe(args[1]), describe(args[2]))})
		}
		return recv
	case "ssa:deferstack":
		return &caller.defers
	}
	in.unsupported("builtin %s", fn.Name())
	return nil
}

// ---------------------------------------------------------------- range

type iter interface {
	next(in *Interp) Tuple
}

type stringIter struct {
	s   string
	pos int
}

func (it *stringIter) next(in *Interp) Tuple {
	if it.pos >= len(it.s) {
		return Tuple{in.tt.False, in.tt.BVI(0, 64), in.tt.BVI(0, 32)}
	}
	r, sz := utf8.DecodeRuneInString(it.s[it.pos:])
	p := it.pos
	it.pos += sz
	return Tuple{in.tt.True, in.tt.BVI(int64(p), 64), in.tt.BVI(int64(r), 32)}
}

type mapIter struct {
	m     *Map
	order []int
	pos   int
	nd    bool
	rest  []int
}

func (it *mapIter) next(in *Interp) Tuple {
	if it.m == nil {
		return Tuple{in.tt.False, nil, nil}
	}
	if it.nd {
		// nondeterministic order: choose any remaining live entry
		var live []int
		for _, i := range it.rest {
			if i < len(it.m.Dead) && !it.m.Dead[i] {
				live = append(live, i)
			}
		}
		if len(live) == 0 {
			return Tuple{in.tt.False, nil, nil}
		}
		k := 0
		if len(live) > 1 {
			k = in.chooseFree(len(live), "map-order")
		}
		sel := live[k]
		it.rest = it.rest[:0]
		for _, i := range live {
			if i != sel {
				it.rest = append(it.rest, i)
			}
		}
		return Tuple{in.tt.True, copyVal(it.m.Keys[sel]), copyVal(it.m.Vals[sel])}
	}
	for it.pos < len(it.order) {
		i := it.order[it.pos]
		it.pos++
		if i < len(it.m.Dead) && !it.m.Dead[i] {
			return Tuple{in.tt.True, copyVal(it.m.Keys[i]), copyVal(it.m.Vals[i])}
		}
	}
	return Tuple{in.tt.False, nil, nil}
}

func (in *Interp) rangeIter(x Value, t types.Type) iter {
	switch x := x.(type) {
	case *Map:
		it := &mapIter{m: x}
		if x != nil {
			for i := range x.Keys {
				if !x.Dead[i] {
					it.order = append(it.order, i)
				}
			}
			if in.mapNondet {
				it.nd = true
				it.rest = append([]int{}, it.order...)
			}
		}
		return it
	case string:
		return &stringIter{s: x}
	case *SymStr:
		v := normStr(x)
		if s, ok := v.(string); ok {
			return &stringIter{s: s}
		}
		in.unsupported("range over symbolic string")
	}
	in.unsupported("range over %T", x)
	return nil
}

// concretizeInt turns an integer value into a concrete int64, forking over
// the feasible values when it is symbolic (only sensible for small ranges).
func (in *Interp) concretizeInt(v Value, what, where string) int64 {
	t, ok := v.(*Term)
	if !ok {
		in.unsupported("%s of type %T", what, v)
	}
	if t.IsConst() {
		return toSigned(t.val, t.sort.W).Int64()
	}
	return in.concretize(t, what+" "+where)
}

func debugf(format string, args ...interface{}) {
	if os.Getenv("GOSYM_DEBUG") != "" {
		fmt.Fprintf(os.Stderr, format+"\n", args...)
	}
}
