package main

// Engine-native model of vm/abi.ABIContract.  The descriptor is parsed from the contract's own JSON (read from
// /repo's current source at package init), the encoding is implemented on symbolic bytes with concrete lengths
// following vm/abi/{pack,unpack,argument}.go.  This replaces the reflective glue of the real package (reflect is
// not interpretable); the byte-level decoder itself is checked on its real SSA by C09-O5.
//
// Supported types: uintN, intN, bool, address, tokenStandard, hash, bytesN (static) and string, bytes (dynamic).
// Slices/arrays end the path as unsupported.  Dynamic arguments are decoded at their canonical offsets
// (assumption recorded in the obligation): non-canonical offsets are outside the claim.

import (
	"encoding/json"
	"fmt"
	"go/types"
	"math/big"
	"regexp"
	"strconv"
	"strings"

	"golang.org/x/crypto/sha3"
	"golang.org/x/tools/go/ssa"
)

type abiType struct {
	Kind string // uint int bool address tokenStandard hash fixedBytes string bytes slice unsupported
	Size int    // bits for ints, bytes for fixedBytes
	Str  string
	Elem *abiType // slice: element type (static element types only)
}

type abiArg struct {
	Name string
	Type abiType
}

type abiEntry struct {
	Name   string
	Inputs []abiArg
	ID     [4]byte
}

type abiDesc struct {
	Methods   map[string]*abiEntry
	Variables map[string]*abiEntry
	Order     []string
}

var abiTypeRe = regexp.MustCompile(`^([a-zA-Z]+)([0-9]*)$`)

func parseAbiType(s string) abiType {
	t := abiType{Str: s, Kind: "unsupported"}
	if strings.HasSuffix(s, "[]") {
		el := parseAbiType(strings.TrimSuffix(s, "[]"))
		if el.Kind != "unsupported" && !el.dynamic() {
			t.Kind, t.Elem = "slice", &el
		}
		return t
	}
	if strings.Contains(s, "[") {
		return t
	}
	m := abiTypeRe.FindStringSubmatch(s)
	if m == nil {
		return t
	}
	n, _ := strconv.Atoi(m[2])
	switch m[1] {
	case "uint", "int":
		t.Kind, t.Size = m[1], n
		if n == 0 {
			t.Size = 256
		}
	case "bool", "address", "tokenStandard", "hash", "string":
		t.Kind = m[1]
	case "bytes":
		if n == 0 {
			t.Kind = "bytes"
		} else {
			t.Kind, t.Size = "fixedBytes", n
		}
	}
	return t
}

func (t abiType) dynamic() bool { return t.Kind == "string" || t.Kind == "bytes" || t.Kind == "slice" }

func parseAbiJSON(src string) (*abiDesc, error) {
	var fields []struct {
		Type   string
		Name   string
		Inputs []struct{ Name, Type string }
	}
	if err := json.Unmarshal([]byte(src), &fields); err != nil {
		return nil, err
	}
	d := &abiDesc{Methods: map[string]*abiEntry{}, Variables: map[string]*abiEntry{}}
	for _, f := range fields {
		e := &abiEntry{Name: f.Name}
		var ts []string
		for _, in := range f.Inputs {
			e.Inputs = append(e.Inputs, abiArg{in.Name, parseAbiType(in.Type)})
			ts = append(ts, in.Type)
		}
		switch f.Type {
		case "function":
			h := sha3.Sum256([]byte(fmt.Sprintf("%v(%v)", f.Name, strings.Join(ts, ","))))
			copy(e.ID[:], h[:4])
			d.Methods[f.Name] = e
			d.Order = append(d.Order, f.Name)
		case "variable":
			d.Variables[f.Name] = e
		}
	}
	return d, nil
}

func (in *Interp) abiOf(v Value) *abiDesc {
	if p, ok := v.(*Value); ok {
		if p == nil {
			in.unsupported("nil *ABIContract")
		}
		v = *p
	}
	st, ok := v.(Struct)
	if ok && len(st) == 2 {
		if o, ok := st[0].(*Opaque); ok && o.Kind == "abi" {
			return o.Data.(*abiDesc)
		}
	}
	in.unsupported("ABIContract value was not built by the engine (%T)", v)
	return nil
}

func (in *Interp) abiErr(name string) Value {
	pkg := in.prog.ImportedPackage(modulePath + "/vm/abi")
	if pkg != nil {
		if g, ok := pkg.Members[name].(*ssa.Global); ok {
			return in.load(in.globalAddr(g))
		}
	}
	return in.makeError("abi: " + name)
}

func (in *Interp) zeroBytes(n int) SliceV {
	r := make(SliceV, n)
	z := in.tt.BVU(0, 8)
	for i := range r {
		r[i] = z
	}
	return r
}

func (in *Interp) bvToBytes(t *Term) SliceV {
	n := t.sort.W / 8
	r := make(SliceV, n)
	for i := 0; i < n; i++ {
		hi := 8*(n-i) - 1
		r[i] = in.tt.Extract(t, hi, hi-7)
	}
	return r
}

func valueBytes(in *Interp, v Value) SliceV {
	switch v := v.(type) {
	case Array:
		return SliceV(v)
	case SliceV:
		return v
	case string, *SymStr:
		bs := in.bytesOf(v)
		r := make(SliceV, len(bs))
		for i, b := range bs {
			r[i] = b
		}
		return r
	}
	in.unsupported("abi: cannot take bytes of %T", v)
	return nil
}

// abiPackArg encodes one argument; dynamic types return (head=nil, tail=encoded length+data).
func (in *Interp) abiPackArg(t abiType, arg Value) (head SliceV, tail SliceV) {
	tt := in.tt
	if ifc, ok := arg.(Iface); ok {
		arg = ifc.V
		if ifc.T != nil {
			if _, signed, isInt := intInfo(ifc.T); isInt {
				if tm, ok := arg.(*Term); ok {
					return in.bvToBytes(tt.Resize(tm, 256, signed)), nil
				}
			}
		}
	}
	if p, ok := arg.(*Value); ok && p != nil {
		if _, isBig := (*p).(BigV); !isBig {
			arg = *p // pointer to an array / string value
		}
	}
	switch t.Kind {
	case "uint", "int":
		switch a := arg.(type) {
		case *Term:
			return in.bvToBytes(tt.Resize(a, 256, t.Kind == "int")), nil
		case *Value:
			x := in.bigOf(a)
			return in.natToBytes(tt.IMod(x, tt.IntConst(pow2(256))), 32), nil
		}
	case "bool":
		b := arg.(*Term)
		return in.bvToBytes(tt.Ite(b, tt.BVU(1, 256), tt.BVU(0, 256))), nil
	case "address", "tokenStandard", "hash":
		bs := valueBytes(in, arg)
		return append(in.zeroBytes(32-len(bs)), bs...), nil
	case "fixedBytes":
		bs := valueBytes(in, arg)
		return append(append(SliceV{}, bs...), in.zeroBytes(32-len(bs))...), nil
	case "string", "bytes":
		bs := valueBytes(in, arg)
		l := len(bs)
		padded := (l + 31) / 32 * 32
		out := in.bvToBytes(tt.BVU(uint64(l), 256))
		out = append(out, bs...)
		out = append(out, in.zeroBytes(padded-l)...)
		return nil, out
	}
	if t.Kind == "slice" {
		if els, ok := arg.(SliceV); ok {
			out := in.bvToBytes(tt.BVU(uint64(len(els)), 256))
			for _, el := range els {
				h, _ := in.abiPackArg(*t.Elem, el)
				out = append(out, h...)
			}
			return nil, out
		}
	}
	in.unsupported("abi: pack of type %s from %T", t.Str, arg)
	return nil, nil
}

func (in *Interp) abiPack(e *abiEntry, args SliceV) Value {
	if len(args) != len(e.Inputs) {
		return Tuple{SliceV(nil), in.makeError("abi: argument count mismatch")}
	}
	var head, tail SliceV
	headLen := 32 * len(e.Inputs)
	for i, a := range args {
		h, t := in.abiPackArg(e.Inputs[i].Type, a)
		if t != nil {
			head = append(head, in.bvToBytes(in.tt.BVU(uint64(headLen+len(tail)), 256))...)
			tail = append(tail, t...)
		} else {
			head = append(head, h...)
		}
	}
	return Tuple{append(head, tail...), Iface{}}
}

// abiDecodeArg decodes argument #idx of the word-aligned data; returns a Value shaped for the Go destination kind.
func (in *Interp) abiDecodeArg(t abiType, idx int, data SliceV, nextTail *int) (Value, Value) {
	tt := in.tt
	index := idx * 32
	if index+32 > len(data) {
		return nil, in.makeError("abi: insufficient length")
	}
	word := data[index : index+32]
	cat := func(bs SliceV) *Term {
		acc := bs[0].(*Term)
		for _, b := range bs[1:] {
			acc = tt.Concat(acc, b.(*Term))
		}
		return acc
	}
	switch t.Kind {
	case "uint", "int":
		switch t.Size {
		case 8, 16, 32, 64:
			// readInteger takes the low bytes and ignores the rest of the word
			return cat(word[32-t.Size/8:]), nil
		default:
			return BigV{in.dropMod(tt.Bv2Nat(cat(word)))}, nil
		}
	case "bool":
		zero := tt.True
		for _, b := range word[:31] {
			zero = tt.And(zero, tt.Eq(b.(*Term), tt.BVU(0, 8)))
		}
		last := word[31].(*Term)
		ok := tt.And(zero, tt.BvUle(last, tt.BVU(1, 8)))
		if !in.truth(ok) {
			return nil, in.abiErr("errBadBool")
		}
		return tt.Eq(last, tt.BVU(1, 8)), nil
	case "address":
		return Array(append(SliceV{}, word[12:]...)), nil
	case "tokenStandard":
		return Array(append(SliceV{}, word[22:]...)), nil
	case "hash":
		return Array(append(SliceV{}, word...)), nil
	case "fixedBytes":
		return Array(append(SliceV{}, word[:t.Size]...)), nil
	case "string", "bytes":
		// lengthPrefixPointsTo: offset word, then length word at offset, then the payload
		off := tt.Bv2Nat(cat(word))
		offEnd := tt.IAdd(off, tt.IntI(32))
		L := tt.IntI(int64(len(data)))
		if !in.truth(tt.ILe(offEnd, L)) {
			return nil, in.makeError("abi: offset overflow")
		}
		// canonical-offset assumption (non-canonical offsets are outside the claim; the decoder's bounds are C09-O5)
		in.assume(tt.Eq(off, tt.IntI(int64(*nextTail))), "abi: dynamic arguments sit at their canonical offsets")
		offC := int64(*nextTail)
		if int(offC)+32 > len(data) || offC < 0 {
			return nil, in.makeError("abi: offset overflow")
		}
		lw := data[int(offC) : int(offC)+32]
		ln := tt.Bv2Nat(cat(lw))
		if !in.truth(tt.ILe(tt.IAdd(offEnd, ln), L)) {
			return nil, in.makeError("abi: insufficient length")
		}
		lnC := int(in.concretize(tt.Int2Bv(ln, 64), "abi dynamic length"))
		begin := int(offC) + 32
		payload := data[begin : begin+lnC]
		*nextTail += 32 + (lnC+31)/32*32
		if t.Kind == "bytes" {
			return append(SliceV{}, payload...), nil
		}
		s := &SymStr{B: make([]*Term, lnC)}
		for i, b := range payload {
			s.B[i] = b.(*Term)
		}
		return normStr(s), nil
	}
	if t.Kind == "slice" {
		// lengthPrefixPointsTo, then forEachUnpack: `size` elements of one word each from offset+32
		off := tt.Bv2Nat(cat(word))
		offEnd := tt.IAdd(off, tt.IntI(32))
		L := tt.IntI(int64(len(data)))
		if !in.truth(tt.ILe(offEnd, L)) {
			return nil, in.makeError("abi: offset overflow")
		}
		in.assume(tt.Eq(off, tt.IntI(int64(*nextTail))), "abi: dynamic arguments sit at their canonical offsets")
		offC := *nextTail
		if offC+32 > len(data) {
			return nil, in.makeError("abi: offset overflow")
		}
		ln := tt.Bv2Nat(cat(data[offC : offC+32]))
		if !in.truth(tt.ILe(tt.IAdd(offEnd, ln), L)) {
			return nil, in.makeError("abi: insufficient length")
		}
		if !in.truth(tt.ILe(tt.IAdd(offEnd, tt.IMul(ln, tt.IntI(32))), L)) {
			return nil, in.makeError("abi: array offset overflow")
		}
		lnC := int(in.concretize(tt.Int2Bv(ln, 64), "abi slice length"))
		begin := offC + 32
		*nextTail += 32 + 32*lnC
		out := make(SliceV, lnC)
		for j := 0; j < lnC; j++ {
			dummy := 0
			v, err := in.abiDecodeArg(*t.Elem, j, data[begin:], &dummy)
			if err != nil {
				return nil, err
			}
			out[j] = v
		}
		return abiSlice{out}, nil
	}
	in.unsupported("abi: unpack of type %s", t.Str)
	return nil, nil
}

// abiSlice is a decoded slice whose elements still need conversion to the destination's element type
type abiSlice struct{ Els SliceV }

func capitaliseABI(s string) string {
	for len(s) > 0 && s[0] == '_' {
		s = s[1:]
	}
	if s == "" {
		return ""
	}
	return strings.ToUpper(s[:1]) + s[1:]
}

// abiAssign stores a decoded value into a destination cell of Go type T.
func (in *Interp) abiAssign(cell *Value, T types.Type, v Value) {
	if as, ok := v.(abiSlice); ok {
		st, isSlice := T.Underlying().(*types.Slice)
		if !isSlice {
			in.unsupported("abi: slice decoded into %s", T)
		}
		out := make(SliceV, len(as.Els))
		for i, el := range as.Els {
			out[i] = in.zero(st.Elem())
			in.abiAssign(&out[i], st.Elem(), el)
		}
		in.store(cell, out)
		return
	}
	if bv, ok := v.(BigV); ok {
		if _, isPtr := T.Underlying().(*types.Pointer); isPtr {
			in.store(cell, in.bigPtr(bv.T))
			return
		}
		if w, _, isInt := intInfo(T); isInt {
			in.store(cell, in.tt.Int2Bv(bv.T, w))
			return
		}
	}
	if t, ok := v.(*Term); ok && t.sort.K == SBV {
		if w, _, isInt := intInfo(T); isInt {
			in.store(cell, in.tt.Resize(t, w, false))
			return
		}
		if _, isPtr := T.Underlying().(*types.Pointer); isPtr {
			in.store(cell, in.bigPtr(in.tt.Bv2Nat(t)))
			return
		}
	}
	in.store(cell, v)
}

func (in *Interp) abiUnpackInto(e *abiEntry, dst Value, data SliceV) Value {
	ifc, ok := dst.(Iface)
	if !ok || ifc.T == nil {
		return in.makeError("abi: invalid destination")
	}
	pt, ok := ifc.T.Underlying().(*types.Pointer)
	if !ok {
		return in.makeError("abi: destination is not a pointer")
	}
	cell, _ := ifc.V.(*Value)
	if cell == nil {
		in.unsupported("abi: nil destination")
	}
	vals := make([]Value, len(e.Inputs))
	nextTail := 32 * len(e.Inputs)
	for i, a := range e.Inputs {
		v, err := in.abiDecodeArg(a.Type, i, data, &nextTail)
		if err != nil {
			return err
		}
		vals[i] = v
	}
	elemT := pt.Elem()
	if st, isStruct := elemT.Underlying().(*types.Struct); isStruct && !isBigInt(elemT) {
		sv, ok := (*cell).(Struct)
		if !ok {
			in.unsupported("abi: destination cell holds %T", *cell)
		}
		for i, a := range e.Inputs {
			want := capitaliseABI(a.Name)
			done := false
			for f := 0; f < st.NumFields(); f++ {
				fld := st.Field(f)
				tag := ""
				if tv, ok := lookupTag(st.Tag(f), "abi"); ok {
					tag = tv
				}
				if (tag != "" && tag == a.Name) || (tag == "" && fld.Name() == want) {
					in.abiAssign(&sv[f], fld.Type(), vals[i])
					done = true
				}
			}
			if !done {
				// reflect.Value.FieldByName also finds fields promoted from embedded structs (one level is all
				// go-zenon uses: the *Key structs embedded in the stored entries)
				for f := 0; f < st.NumFields() && !done; f++ {
					fld := st.Field(f)
					est, isS := fld.Type().Underlying().(*types.Struct)
					if !fld.Embedded() || !isS {
						continue
					}
					esv, ok := sv[f].(Struct)
					if !ok {
						in.unsupported("abi: embedded destination holds %T", sv[f])
					}
					for g := 0; g < est.NumFields(); g++ {
						if est.Field(g).Name() == want {
							in.abiAssign(&esv[g], est.Field(g).Type(), vals[i])
							done = true
							break
						}
					}
				}
			}
		}
		return Iface{}
	}
	if len(vals) != 1 {
		return in.makeError("abi: wrong packed length")
	}
	in.abiAssign(cell, elemT, vals[0])
	return Iface{}
}

func lookupTag(tag, key string) (string, bool) {
	for tag != "" {
		i := strings.Index(tag, key+":\"")
		if i < 0 {
			return "", false
		}
		rest := tag[i+len(key)+2:]
		j := strings.Index(rest, "\"")
		if j < 0 {
			return "", false
		}
		return rest[:j], true
	}
	return "", false
}

// abiMethodByID returns the entry whose selector equals sel (may branch on symbolic selector bytes).
func (in *Interp) abiMethodByID(d *abiDesc, sel SliceV) *abiEntry {
	for _, name := range d.Order {
		e := d.Methods[name]
		eq := in.tt.True
		for i := 0; i < 4; i++ {
			eq = in.tt.And(eq, in.tt.Eq(sel[i].(*Term), in.tt.BVU(uint64(e.ID[i]), 8)))
		}
		if in.truth(eq) {
			return e
		}
	}
	return nil
}

func init() {
	A := modulePath + "/vm/abi."
	R := "(" + modulePath + "/vm/abi.ABIContract)."
	RP := "(*" + modulePath + "/vm/abi.ABIContract)."
	intrinsics[A+"JSONToABIContract"] = func(in *Interp, fr *frame, fn *ssa.Function, a []Value) Value {
		src := ""
		if ifc, ok := a[0].(Iface); ok {
			if p, ok := ifc.V.(*Value); ok && p != nil {
				if st, ok := (*p).(Struct); ok && len(st) > 0 {
					if s, ok := st[0].(string); ok {
						src = s
					}
				}
			}
		}
		d, err := parseAbiJSON(src)
		if err != nil || src == "" {
			in.unsupported("abi: cannot read the contract's JSON definition: %v", err)
		}
		return Struct{&Opaque{Kind: "abi", Data: d}, (*Map)(nil)}
	}
	pack := func(method, panics bool) intrinsicFn {
		return func(in *Interp, fr *frame, fn *ssa.Function, a []Value) Value {
			d := in.abiOf(a[0])
			name := asString(in, a[1])
			var e *abiEntry
			if method {
				e = d.Methods[name]
			} else {
				e = d.Variables[name]
			}
			var res Tuple
			if e == nil {
				res = Tuple{SliceV(nil), in.makeError("abi: " + name + " not found")}
			} else {
				res = in.abiPack(e, sliceOf(in, a[2])).(Tuple)
				if method {
					if ei, isI := res[1].(Iface); isI && ei.T == nil {
						bs, _ := res[0].(SliceV)
						id := make(SliceV, 4)
						for i := range id {
							id[i] = in.tt.BVU(uint64(e.ID[i]), 8)
						}
						res = Tuple{append(id, bs...), res[1]}
					}
				}
			}
			if panics {
				if ei, ok := res[1].(Iface); ok && ei.T != nil {
					panic(targetPanic{res[1]})
				}
				return res[0]
			}
			return res
		}
	}
	intrinsics[R+"PackMethod"] = pack(true, false)
	intrinsics[R+"PackMethodPanic"] = pack(true, true)
	intrinsics[R+"PackVariable"] = pack(false, false)
	intrinsics[R+"PackVariablePanic"] = pack(false, true)
	intrinsics[R+"UnpackMethod"] = func(in *Interp, fr *frame, fn *ssa.Function, a []Value) Value {
		d := in.abiOf(a[0])
		name := asString(in, a[2])
		input := sliceOf(in, a[3])
		if len(input) <= 4 {
			return in.abiErr("errEmptyInput")
		}
		e := in.abiMethodByID(d, input[:4])
		if e == nil || e.Name != name {
			return in.abiErr("errCouldNotLocateNamedMethod")
		}
		return in.abiUnpackInto(e, a[1], input[4:])
	}
	intrinsics[R+"UnpackEmptyMethod"] = func(in *Interp, fr *frame, fn *ssa.Function, a []Value) Value {
		d := in.abiOf(a[0])
		name := asString(in, a[1])
		input := sliceOf(in, a[2])
		if len(input) < 4 {
			return in.abiErr("errEmptyInput")
		} else if len(input) > 4 {
			return in.abiErr("errInputTooLong")
		}
		e := in.abiMethodByID(d, input[:4])
		if e == nil || e.Name != name {
			return in.abiErr("errCouldNotLocateNamedMethod")
		}
		return Iface{}
	}
	unpackVar := func(panics bool) intrinsicFn {
		return func(in *Interp, fr *frame, fn *ssa.Function, a []Value) Value {
			d := in.abiOf(a[0])
			name := asString(in, a[2])
			input := sliceOf(in, a[3])
			var res Value
			if len(input) == 0 {
				res = in.abiErr("errEmptyInput")
			} else if e := d.Variables[name]; e != nil {
				res = in.abiUnpackInto(e, a[1], input)
			} else {
				res = in.abiErr("errCouldNotLocateNamedVariable")
			}
			if panics {
				if ei, ok := res.(Iface); ok && ei.T != nil {
					panic(targetPanic{res})
				}
				return nil
			}
			return res
		}
	}
	intrinsics[R+"UnpackVariable"] = unpackVar(false)
	intrinsics[R+"UnpackVariablePanic"] = unpackVar(true)
	intrinsics[RP+"MethodById"] = func(in *Interp, fr *frame, fn *ssa.Function, a []Value) Value {
		d := in.abiOf(a[0])
		sel := sliceOf(in, a[1])
		if len(sel) < 4 {
			return Tuple{(*Value)(nil), in.abiErr("errMethodIdNotSpecified")}
		}
		e := in.abiMethodByID(d, sel[:4])
		if e == nil {
			return Tuple{(*Value)(nil), in.makeError("abi: no method with that id")}
		}
		id := make(SliceV, 4)
		for i := range id {
			id[i] = in.tt.BVU(uint64(e.ID[i]), 8)
		}
		cell := new(Value)
		*cell = Struct{e.Name, id, SliceV(nil)}
		return Tuple{cell, Iface{}}
	}
	_ = big.NewInt
}
