package main

// Path exploration by re-execution under decision prefixes.

import (
	"fmt"
	"math/big"
	"os"
	"runtime"
	"runtime/debug"
	"sort"
	"strconv"
	"strings"
	"sync"
	"time"

	"golang.org/x/tools/go/ssa"
)

type Config struct {
	Unwind      int
	MaxSteps    int64
	MaxAlloc    int
	MaxPaths    int
	MaxDepth    int
	MaxValues   int
	Workers     int
	Solver      string
	TimeoutMs   int
	Verbose     bool
	IgnoreGo    bool
	Overrides   map[string]string
	CrossSolver []string
	Pin         map[string]*big.Int // pinned nondet values (translator validation / replay in engine)
	MaxTimeS    int
	KeepGoing   bool
	Params      map[string]int64
}

type Path struct {
	prefix    []int64
	taken     []int64
	pc        []*Term
	asserted  int // how many of pc are on the solver stack
	nondets   []*Term
	nondetLog []nondetRec
	outs      []string
	choices   map[string]int64
	facts     map[*Term]bool
	ub        map[*Term]*big.Int // upper bounds of Int terms asserted by the path condition (x < c, x <= c)
	lb        map[*Term]*big.Int // lower bounds (c <= x, c < x and the negated forms)
}

type nondetRec struct {
	Name string
	Kind string
	Vars []*Term
}

type Violation struct {
	Label     string            `json:"label"`
	Kind      string            `json:"kind"` // assert | panic
	Msg       string            `json:"msg"`
	Decisions []int64           `json:"decisions"`
	Model     map[string]string `json:"model"`
	Order     []string          `json:"order"`
	Known     string            `json:"known,omitempty"`
	Stack     string            `json:"stack,omitempty"`
}

type AssertStat struct {
	Checks     int
	Trivial    int
	Discharged int
	Violated   int
	Unknown    int
}

type Explorer struct {
	mu           sync.Mutex
	cfg          *Config
	queue        [][]int64
	active       int
	cond         *sync.Cond
	Paths        int
	Ended        map[string]int
	EndMsgs      map[string]int
	Decisions    int
	Queries      int
	SolverTime   time.Duration
	Asserts      map[string]*AssertStat
	Reached      map[string]bool
	ReachDecl    map[string]bool
	Violations   []*Violation
	vioSeen      map[string]bool
	Funcs        map[string]bool
	Warnings     map[string]bool
	Assumes      map[string]bool
	Samples      []string
	stop         bool
	PerSolver    map[string]int
	Outs         []string
	logSeq       int
	MaxDepthSeen int
}

func NewExplorer(cfg *Config) *Explorer {
	ex := &Explorer{cfg: cfg, Ended: map[string]int{}, EndMsgs: map[string]int{}, Asserts: map[string]*AssertStat{},
		Reached: map[string]bool{}, ReachDecl: map[string]bool{}, vioSeen: map[string]bool{}, Funcs: map[string]bool{},
		Warnings: map[string]bool{}, Assumes: map[string]bool{}, PerSolver: map[string]int{}}
	ex.cond = sync.NewCond(&ex.mu)
	return ex
}

func (ex *Explorer) pushWork(p []int64) {
	ex.mu.Lock()
	ex.queue = append(ex.queue, p)
	ex.mu.Unlock()
	ex.cond.Signal()
}

func (ex *Explorer) popWork() ([]int64, bool) {
	ex.mu.Lock()
	defer ex.mu.Unlock()
	for {
		if ex.stop {
			return nil, false
		}
		if n := len(ex.queue); n > 0 {
			p := ex.queue[n-1]
			ex.queue = ex.queue[:n-1]
			ex.active++
			return p, true
		}
		if ex.active == 0 {
			ex.cond.Broadcast()
			return nil, false
		}
		ex.cond.Wait()
	}
}

func (ex *Explorer) doneWork() {
	ex.mu.Lock()
	ex.active--
	if ex.active == 0 && len(ex.queue) == 0 {
		ex.cond.Broadcast()
	}
	ex.mu.Unlock()
}

func (ex *Explorer) assertStat(label string) *AssertStat {
	s := ex.Asserts[label]
	if s == nil {
		s = &AssertStat{}
		ex.Asserts[label] = s
	}
	return s
}

// ---------------------------------------------------------------- path primitives

func (in *Interp) syncOne(s *Solver) {
	p := in.path
	for s.asserted < len(p.pc) {
		s.Push()
		s.Assert(p.pc[s.asserted], in.tt)
		s.asserted++
	}
}

func (in *Interp) syncSolver() { in.syncOne(in.solver) }

// pickOrder returns the solvers in the order they should be tried for a query:
// integer-mode back ends first when the query mentions math/big values.
func (in *Interp) pickOrder(extra *Term) []*Solver {
	if len(in.solvers) <= 1 {
		return in.solvers
	}
	useInt := extra != nil && extra.hasMix
	if !useInt {
		for _, c := range in.path.pc {
			if c.hasMix {
				useInt = true
				break
			}
		}
	}
	var first, rest []*Solver
	for _, s := range in.solvers {
		if s.intMode == useInt {
			first = append(first, s)
		} else {
			rest = append(rest, s)
		}
	}
	return append(first, rest...)
}

func (in *Interp) addPC(c *Term) {
	in.path.pc = append(in.path.pc, c)
	in.noteFact(c, 0)
}

// noteFact records c (and, through conjunctions, its parts) as syntactically known on this path.
func (in *Interp) noteFact(c *Term, depth int) {
	p := in.path
	if p.facts == nil {
		p.facts = map[*Term]bool{}
	}
	if p.facts[c] || depth > 200 {
		return
	}
	p.facts[c] = true
	in.noteBound(c)
	switch c.op {
	case OAnd:
		in.noteFact(c.args[0], depth+1)
		in.noteFact(c.args[1], depth+1)
	case ONot:
		if o := c.args[0]; o.op == OOr {
			in.noteFact(in.tt.Not(o.args[0]), depth+1)
			in.noteFact(in.tt.Not(o.args[1]), depth+1)
		}
	}
}

// noteBound records upper bounds x < c / x <= c (and the negated forms) of Int terms.
func (in *Interp) noteBound(c *Term) {
	set := func(x *Term, hi *big.Int) {
		p := in.path
		if p.ub == nil {
			p.ub = map[*Term]*big.Int{}
		}
		if old, ok := p.ub[x]; !ok || hi.Cmp(old) < 0 {
			p.ub[x] = hi
		}
	}
	neg := false
	if c.op == ONot {
		neg, c = true, c.args[0]
	}
	if c.op != OILt && c.op != OILe {
		return
	}
	a, b := c.args[0], c.args[1]
	setLo := func(x *Term, lo *big.Int) {
		p := in.path
		if p.lb == nil {
			p.lb = map[*Term]*big.Int{}
		}
		if old, ok := p.lb[x]; !ok || lo.Cmp(old) > 0 {
			p.lb[x] = lo
		}
	}
	switch {
	case !neg && c.op == OILt && b.IsConst(): // a < c
		set(a, new(big.Int).Sub(b.val, bigOne))
	case !neg && c.op == OILe && b.IsConst(): // a <= c
		set(a, b.val)
	case neg && c.op == OILt && a.IsConst(): // !(c < b)  =>  b <= c
		set(b, a.val)
	case neg && c.op == OILe && a.IsConst(): // !(c <= b) =>  b < c
		set(b, new(big.Int).Sub(a.val, bigOne))
	case !neg && c.op == OILt && a.IsConst(): // c < b
		setLo(b, new(big.Int).Add(a.val, bigOne))
	case !neg && c.op == OILe && a.IsConst(): // c <= b
		setLo(b, a.val)
	case neg && c.op == OILt && b.IsConst(): // !(a < c)  =>  a >= c
		setLo(a, b.val)
	case neg && c.op == OILe && b.IsConst(): // !(a <= c) =>  a > c
		setLo(a, new(big.Int).Add(b.val, bigOne))
	}
}

// intHi / intLo: an upper / lower bound of an Int term under the current path condition (nil = none found).
func (in *Interp) intHi(t *Term, depth int) *big.Int {
	if depth > 12 {
		return nil
	}
	var best *big.Int
	if in.path != nil && in.path.ub != nil {
		best = in.path.ub[t]
	}
	min := func(x *big.Int) {
		if x != nil && (best == nil || x.Cmp(best) < 0) {
			best = x
		}
	}
	switch t.op {
	case OConst:
		return t.val
	case OBv2Nat:
		min(new(big.Int).Sub(pow2(t.args[0].sort.W), bigOne))
	case OIAdd:
		if a, b := in.intHi(t.args[0], depth+1), in.intHi(t.args[1], depth+1); a != nil && b != nil {
			min(new(big.Int).Add(a, b))
		}
	case OISub:
		if a, b := in.intHi(t.args[0], depth+1), in.intLo(t.args[1], depth+1); a != nil && b != nil {
			min(new(big.Int).Sub(a, b))
		}
	case OIMod:
		if m := t.args[1]; m.IsConst() && m.val.Sign() > 0 {
			min(new(big.Int).Sub(m.val, bigOne))
			if lo := in.intLo(t.args[0], depth+1); lo != nil && lo.Sign() >= 0 {
				min(in.intHi(t.args[0], depth+1))
			}
		}
	case OIte:
		if a, b := in.intHi(t.args[1], depth+1), in.intHi(t.args[2], depth+1); a != nil && b != nil {
			if a.Cmp(b) < 0 {
				a = b
			}
			min(a)
		}
	}
	return best
}

func (in *Interp) intLo(t *Term, depth int) *big.Int {
	if depth > 12 {
		return nil
	}
	if in.path != nil && in.path.lb != nil {
		if lo := in.path.lb[t]; lo != nil {
			if t.op != OBv2Nat || lo.Sign() > 0 {
				return lo
			}
		}
	}
	switch t.op {
	case OConst:
		return t.val
	case OBv2Nat:
		return new(big.Int)
	case OIAdd:
		if a, b := in.intLo(t.args[0], depth+1), in.intLo(t.args[1], depth+1); a != nil && b != nil {
			return new(big.Int).Add(a, b)
		}
	case OISub:
		if a, b := in.intLo(t.args[0], depth+1), in.intHi(t.args[1], depth+1); a != nil && b != nil {
			return new(big.Int).Sub(a, b)
		}
	case OIMod:
		if m := t.args[1]; m.IsConst() && m.val.Sign() > 0 {
			return new(big.Int)
		}
	case OIte:
		if a, b := in.intLo(t.args[1], depth+1), in.intLo(t.args[2], depth+1); a != nil && b != nil {
			if a.Cmp(b) > 0 {
				a = b
			}
			return a
		}
	}
	if nonNeg(t) {
		return new(big.Int)
	}
	return nil
}

// dropMod: x mod m = x when the path condition bounds x inside [0, m) (values that went through a fixed-width
// byte encoding and back: balances, ABI words).  Sound on this path only, which is where the term is used.
func (in *Interp) dropMod(t *Term) *Term {
	for t.op == OIMod && t.args[1].IsConst() && t.args[1].val.Sign() > 0 {
		lo, hi := in.intLo(t.args[0], 0), in.intHi(t.args[0], 0)
		if lo == nil || hi == nil || lo.Sign() < 0 || hi.Cmp(t.args[1].val) >= 0 {
			break
		}
		t = t.args[0]
	}
	return t
}

// knownFact: 1 = c is syntactically implied by the path condition, -1 = its negation is, 0 = unknown.
func (in *Interp) knownFact(c *Term) int {
	p := in.path
	if p.facts == nil {
		return 0
	}
	if p.facts[c] {
		return 1
	}
	if p.facts[in.tt.Not(c)] {
		return -1
	}
	if c.op == OAnd {
		a, b := in.knownFact(c.args[0]), in.knownFact(c.args[1])
		if a == 1 && b == 1 {
			return 1
		}
		if a == -1 || b == -1 {
			return -1
		}
	}
	return 0
}

func (in *Interp) check(extra *Term) Verdict {
	order := in.pickOrder(extra)
	for _, s := range order {
		s.mu.Lock()
		s.cancelled = false
		s.mu.Unlock()
	}
	// escalating time limits: first every solver that can change its limit gets a short one (a query on which one
	// encoding times out is usually decided at once in the other), then every solver gets the full limit
	if quick := quickTimeoutMs; len(order) > 1 && in.cfg.TimeoutMs > 2*quick {
		for _, s := range order {
			if s.dead || !s.SetTimeout(quick) {
				continue
			}
			if v := in.checkOn(s, extra); v != Unknown {
				in.solver = s
				return v
			}
		}
	}
	if len(order) == 1 {
		order[0].SetTimeout(in.cfg.TimeoutMs)
		return in.checkOn(order[0], extra)
	}
	// full limit: race the solvers (each has its own process; the solver code only reads the term table); the first
	// definite verdict wins, the others are killed and restarted lazily with the whole stack re-asserted
	v := in.race(order, extra, in.cfg.TimeoutMs)
	if v == Unknown {
		// last resort before the query counts as unknown: four times the limit (a loaded machine, a hard instance)
		v = in.race(order, extra, 4*in.cfg.TimeoutMs)
	}
	return v
}

func (in *Interp) race(order []*Solver, extra *Term, timeoutMs int) Verdict {
	type res struct {
		s *Solver
		v Verdict
	}
	ch := make(chan res, len(order))
	started := 0
	for _, s := range order {
		if s.dead {
			if err := s.Restart(); err != nil {
				continue
			}
		}
		if !s.SetTimeout(timeoutMs) && timeoutMs != in.cfg.TimeoutMs {
			continue // a solver with a fixed limit does not take part in the extended round
		}
		s.mu.Lock()
		s.cancelled = false
		s.mu.Unlock()
		started++
		go func(s *Solver) { ch <- res{s, in.checkOn(s, extra)} }(s)
	}
	v := Unknown
	for n := 0; n < started; n++ {
		r := <-ch
		if r.v != Unknown && v == Unknown {
			v = r.v
			in.solver = r.s
			for _, o := range order {
				if o != r.s {
					o.Kill()
				}
			}
		}
	}
	return v
}

const quickTimeoutMs = 1500

func (in *Interp) checkOn(s *Solver, extra *Term) Verdict {
	if s.dead {
		if err := s.Restart(); err != nil {
			return Unknown
		}
	}
	in.syncOne(s)
	t0 := time.Now()
	var v Verdict
	if extra == nil {
		v = s.Check()
	} else {
		v = s.CheckWith(extra, in.tt)
	}
	if slowLogMs > 0 && time.Since(t0) > time.Duration(slowLogMs)*time.Millisecond {
		es := ""
		if extra != nil {
			es = extra.String()
			if len(es) > 300 {
				es = es[:300]
			}
		}
		fmt.Fprintf(os.Stderr, "SLOW %s %v %dms pc=%d extra=%s\n", s.kind, v, time.Since(t0).Milliseconds(), len(in.path.pc), es)
	}
	return v
}

// branch decides a symbolic condition for the current path.  Every symbolic
// branch is recorded in the decision string: 1/0 = a real two-sided decision,
// 3/2 = forced (the path condition implies the outcome), so that a prefix is
// replayed without consulting the solver.
func (in *Interp) branch(c *Term) bool {
	in.lastReal = false
	if c.IsConst() {
		return c.IsTrue()
	}
	if in.initDepth > 0 {
		in.unsupported("symbolic branch during package init")
	}
	p := in.path
	d := len(p.taken)
	if d < len(p.prefix) {
		k := p.prefix[d]
		p.taken = append(p.taken, k)
		if k < 2 {
			in.lastReal = true
			if k == 1 {
				in.addPC(c)
			} else {
				in.addPC(in.tt.Not(c))
			}
		}
		return k&1 == 1
	}
	switch in.knownFact(c) {
	case 1:
		p.taken = append(p.taken, 3)
		return true
	case -1:
		p.taken = append(p.taken, 2)
		return false
	}
	vt := in.check(c)
	if vt == Unsat {
		p.taken = append(p.taken, 2)
		return false
	}
	vf := in.check(in.tt.Not(c))
	if vf == Unsat {
		p.taken = append(p.taken, 3)
		return true
	}
	if vt == Unknown || vf == Unknown {
		in.ex.mu.Lock()
		in.ex.Ended["feasibility-unknown"]++
		in.ex.mu.Unlock()
	}
	if d >= in.cfg.MaxDepth {
		panic(pathEnd{"unwind", fmt.Sprintf("more than %d decisions on one path", in.cfg.MaxDepth)})
	}
	alt := make([]int64, d+1)
	copy(alt, p.taken)
	alt[d] = 0
	in.ex.pushWork(alt)
	p.taken = append(p.taken, 1)
	in.lastReal = true
	in.addPC(c)
	return true
}

func (in *Interp) replaying() bool { return len(in.path.taken) < len(in.path.prefix) }

// concretize enumerates the feasible values of t (bounded by MaxValues).
func (in *Interp) concretize(t *Term, what string) int64 {
	p := in.path
	d := len(p.taken)
	signed := func(v *big.Int) int64 { return toSigned(normBV(v, t.sort.W), t.sort.W).Int64() }
	if d < len(p.prefix) {
		v := p.prefix[d]
		p.taken = append(p.taken, v)
		in.addPC(in.tt.Eq(t, in.tt.BVI(v, t.sort.W)))
		return v
	}
	var vals []int64
	excl := in.tt.True
	for {
		if in.check(excl) == Unsat {
			break
		}
		in.syncSolver()
		in.solver.Push()
		in.solver.Assert(excl, in.tt)
		v := in.solver.Check()
		if v == Unsat {
			in.solver.Pop(1)
			break
		}
		if v == Unknown {
			in.solver.Pop(1)
			panic(pathEnd{"unsupported", "solver unknown while enumerating values for " + what})
		}
		m := in.solver.Values([]*Term{t}, in.tt)
		in.solver.Pop(1)
		var val *big.Int
		for _, x := range m {
			val = x
		}
		if val == nil {
			// variable-free in model → any value; use evaluation via a named var
			panic(pathEnd{"unsupported", "no model value while enumerating " + what})
		}
		sv := signed(val)
		vals = append(vals, sv)
		excl = in.tt.And(excl, in.tt.Not(in.tt.Eq(t, in.tt.BVI(sv, t.sort.W))))
		if len(vals) > in.cfg.MaxValues {
			panic(pathEnd{"unwind", fmt.Sprintf("more than %d feasible values for %s", in.cfg.MaxValues, what)})
		}
	}
	if len(vals) == 0 {
		panic(pathEnd{"assume", "infeasible path at concretize"})
	}
	sort.Slice(vals, func(i, j int) bool { return vals[i] < vals[j] })
	if len(vals) > 1 {
		for _, v := range vals[1:] {
			alt := make([]int64, d+1)
			copy(alt, p.taken)
			alt[d] = v
			in.ex.pushWork(alt)
		}
	}
	p.taken = append(p.taken, vals[0])
	in.addPC(in.tt.Eq(t, in.tt.BVI(vals[0], t.sort.W)))
	return vals[0]
}

// chooseFree is an unconstrained n-way choice (map order, scheduler, crash point).
func (in *Interp) chooseFree(n int, why string) int {
	k := in.chooseFree1(n, why)
	if in.path.choices == nil {
		in.path.choices = map[string]int64{}
	}
	in.path.choices[in.freshName(why)] = int64(k)
	return k
}

func (in *Interp) chooseFree1(n int, why string) int {
	p := in.path
	d := len(p.taken)
	if d < len(p.prefix) {
		k := p.prefix[d]
		p.taken = append(p.taken, k)
		return int(k)
	}
	for k := 1; k < n; k++ {
		alt := make([]int64, d+1)
		copy(alt, p.taken)
		alt[d] = int64(k)
		in.ex.pushWork(alt)
	}
	p.taken = append(p.taken, 0)
	return 0
}

func (in *Interp) assume(c *Term, label string) {
	in.ex.mu.Lock()
	in.ex.Assumes[label] = true
	in.ex.mu.Unlock()
	if c.IsTrue() {
		return
	}
	if c.IsFalse() {
		panic(pathEnd{"assume", label})
	}
	if !in.replaying() {
		if in.check(c) == Unsat {
			panic(pathEnd{"assume", label})
		}
	}
	in.addPC(c)
}

func (in *Interp) modelFor(extra *Term) (map[string]string, []string) {
	// called right after a Sat verdict of in.solver with `extra` still to be asserted
	if extra == nil {
		in.check(nil)
	}
	in.syncSolver()
	in.solver.Push()
	if extra != nil {
		in.solver.Assert(extra, in.tt)
	}
	res := map[string]string{}
	var order []string
	if in.solver.Check() == Sat {
		vals := in.solver.Values(in.path.nondets, in.tt)
		for _, v := range in.path.nondets {
			order = append(order, v.name)
			if x, ok := vals[v.name]; ok {
				if v.sort.K == SBV {
					res[v.name] = "0x" + normBV(x, v.sort.W).Text(16)
				} else {
					res[v.name] = x.String()
				}
			}
		}
	}
	in.solver.Pop(1)
	for k, v := range in.path.choices {
		res[k] = fmt.Sprint(v)
		order = append(order, k)
	}
	return res, order
}

func (in *Interp) assertProp(c *Term, label string, known *Term, knownID string) {
	ex := in.ex
	if in.replaying() {
		if !c.IsConst() {
			in.addPC(c)
		}
		return
	}
	ex.mu.Lock()
	st := ex.assertStat(label)
	st.Checks++
	ex.mu.Unlock()
	if c.IsTrue() || in.knownFact(c) == 1 {
		ex.mu.Lock()
		st.Trivial++
		st.Discharged++
		ex.mu.Unlock()
		return
	}
	neg := in.tt.Not(c)
	report := func(q *Term, knownTag string) bool {
		v := in.check(q)
		switch v {
		case Unsat:
			return false
		case Unknown:
			v2 := in.crossCheck(q)
			if v2 == Unsat {
				return false
			}
			if v2 == Unknown {
				ex.mu.Lock()
				st.Unknown++
				ex.mu.Unlock()
				return false
			}
		}
		model, order := in.modelFor(q)
		vio := &Violation{Label: label, Kind: "assert", Decisions: append([]int64{}, in.path.taken...), Model: model, Order: order, Known: knownTag,
			Msg: "assertion can fail"}
		ex.addViolation(vio)
		ex.mu.Lock()
		st.Violated++
		ex.mu.Unlock()
		return true
	}
	bad := false
	if known != nil {
		if report(in.tt.And(neg, in.tt.Not(known)), "") {
			bad = true
		}
		if report(in.tt.And(neg, known), knownID) {
			bad = true
		}
	} else {
		bad = report(neg, "")
	}
	if !bad {
		ex.mu.Lock()
		st.Discharged++
		ex.mu.Unlock()
	}
	// continue under the asserted condition
	if in.check(c) == Unsat {
		panic(pathEnd{"assert-dead", label})
	}
	in.addPC(c)
}

// crossCheck retries a query on the other solvers (fresh processes).
func (in *Interp) crossCheck(q *Term) Verdict {
	for _, kind := range in.cfg.CrossSolver {
		s, err := NewSolver(kind, in.cfg.TimeoutMs*3)
		if err != nil {
			continue
		}
		for _, c := range in.path.pc {
			s.Assert(c, in.tt)
		}
		s.Assert(q, in.tt)
		v := s.Check()
		in.ex.mu.Lock()
		in.ex.Queries++
		in.ex.SolverTime += s.Time
		in.ex.mu.Unlock()
		s.Close()
		if v != Unknown {
			return v
		}
	}
	return Unknown
}

func (ex *Explorer) addViolation(v *Violation) {
	ex.mu.Lock()
	defer ex.mu.Unlock()
	key := v.Kind + "|" + v.Label + "|" + v.Known + "|" + v.Msg
	if ex.vioSeen[key] {
		return
	}
	ex.vioSeen[key] = true
	ex.Violations = append(ex.Violations, v)
	if v.Known == "" && !ex.cfg.KeepGoing {
		// one confirmed counterexample outside the known-finding regions decides the obligation
		ex.stop = true
		ex.cond.Broadcast()
	}
}

func (in *Interp) reach(label string, c *Term) {
	ex := in.ex
	ex.mu.Lock()
	ex.ReachDecl[label] = true
	done := ex.Reached[label]
	ex.mu.Unlock()
	if done || c.IsFalse() || in.replaying() {
		return
	}
	if c.IsTrue() || in.check(c) == Sat {
		ex.mu.Lock()
		ex.Reached[label] = true
		ex.mu.Unlock()
	}
}

var slowLogMs, _ = strconv.Atoi(os.Getenv("GOSYM_SLOW"))

// ---------------------------------------------------------------- running

type Job struct {
	Prog  *ssa.Program
	Entry *ssa.Function
	Cfg   *Config
}

func (in *Interp) newPath(prefix []int64) {
	in.path = &Path{prefix: prefix}
	in.steps = 0
	in.depth = 0
	in.nondetSeq = map[string]int{}
	in.mapNondet = false
	in.clock = nil
	in.objSeq = 0
	in.hashApps = map[string][]hashApp{}
	for _, s := range in.solvers {
		s.Pop(s.depth)
		s.asserted = 0
	}
}

func newInterp(job *Job, ex *Explorer) (*Interp, error) {
	var solvers []*Solver
	for _, kind := range strings.Split(job.Cfg.Solver, ",") {
		s, err := NewSolver(kind, job.Cfg.TimeoutMs)
		if err != nil {
			return nil, err
		}
		solvers = append(solvers, s)
	}
	s := solvers[0]
	in := &Interp{solvers: solvers, prog: job.Prog, tt: NewTermTable(), globals: map[*ssa.Global]*Value{}, initState: map[*ssa.Package]int{},
		cfg: job.Cfg, ex: ex, solver: s, intrCache: map[*ssa.Function]intrinsicFn{}, overrides: map[*ssa.Function]*ssa.Function{},
		funcsSeen: map[*ssa.Function]bool{}, warnings: map[string]bool{}, builtPkgs: map[*ssa.Package]bool{}}
	in.trace = os.Getenv("GOSYM_TRACE") != ""
	if d := os.Getenv("GOSYM_SMTLOG"); d != "" {
		ex.mu.Lock()
		ex.logSeq++
		seq := ex.logSeq
		ex.mu.Unlock()
		for i, sv := range solvers {
			if f, err := os.Create(fmt.Sprintf("%s/worker%d_%d_%s.smt2", d, seq, i, sv.kind)); err == nil {
				sv.log = f
			}
		}
	}
	return in, nil
}

func (in *Interp) runPath(entry *ssa.Function, prefix []int64) {
	ex := in.ex
	in.newPath(prefix)
	in.logging = true
	endKind, endMsg := "return", ""
	func() {
		defer func() {
			r := recover()
			if r == nil {
				return
			}
			switch r := r.(type) {
			case pathEnd:
				endKind, endMsg = r.kind, r.msg
			case targetPanic, runtimeError:
				endKind = "panic"
				endMsg = panicString(r)
				if in.check(nil) != Sat {
					// the path condition could not be confirmed satisfiable: not reported as a violation
					endKind = "panic-unconfirmed"
					return
				}
				model, order := in.modelFor(nil)
				ex.addViolation(&Violation{Label: "no-panic", Kind: "panic", Msg: endMsg, Decisions: append([]int64{}, in.path.taken...), Model: model, Order: order})
			default:
				if re, ok := r.(runtime.Error); ok && strings.Contains(re.Error(), "main.Poison") {
					endKind, endMsg = "unsupported", "use of a value package init could not build: "+re.Error()
					return
				}
				endKind = "internal"
				endMsg = fmt.Sprint(r) + "\n" + string(debug.Stack())
			}
		}()
		in.callSSA(nil, 0, entry, nil, nil)
	}()
	in.rollbackUndo()
	in.logging = false
	ex.mu.Lock()
	if endKind == "panic" {
		in.path.outs = append(in.path.outs, "PANIC")
	}
	if ex.Outs == nil {
		ex.Outs = in.path.outs
	}
	ex.Paths++
	ex.Ended[endKind]++
	if endMsg != "" && endKind != "assume" && endKind != "return" {
		m := endKind + ": " + endMsg
		if len(m) > 2000 {
			m = m[:2000]
		}
		ex.EndMsgs[m]++
	}
	ex.Decisions += len(in.path.taken)
	if len(in.path.taken) > ex.MaxDepthSeen {
		ex.MaxDepthSeen = len(in.path.taken)
	}
	if len(ex.Samples) < 8 {
		ex.Samples = append(ex.Samples, fmt.Sprintf("%v -> %s", in.path.taken, endKind))
	}
	if ex.cfg.MaxPaths > 0 && ex.Paths >= ex.cfg.MaxPaths {
		ex.stop = true
		ex.Ended["path-budget"]++
		ex.cond.Broadcast()
	}
	ex.mu.Unlock()
}

func RunJob(job *Job) *Explorer {
	ex := NewExplorer(job.Cfg)
	ex.queue = append(ex.queue, []int64{})
	if job.Cfg.MaxTimeS > 0 {
		timer := time.AfterFunc(time.Duration(job.Cfg.MaxTimeS)*time.Second, func() {
			ex.mu.Lock()
			if !ex.stop {
				ex.stop = true
				ex.Ended["time-budget"]++
			}
			ex.mu.Unlock()
			ex.cond.Broadcast()
		})
		defer timer.Stop()
	}
	if os.Getenv("GOSYM_PROGRESS") != "" {
		done := make(chan struct{})
		defer close(done)
		go func() {
			for {
				select {
				case <-done:
					return
				case <-time.After(5 * time.Second):
					ex.mu.Lock()
					fmt.Fprintf(os.Stderr, "progress: paths=%d queue=%d active=%d ended=%v\n", ex.Paths, len(ex.queue), ex.active, ex.Ended)
					ex.mu.Unlock()
				}
			}
		}()
	}
	var wg sync.WaitGroup
	n := job.Cfg.Workers
	if n < 1 {
		n = 1
	}
	for w := 0; w < n; w++ {
		wg.Add(1)
		go func() {
			defer wg.Done()
			in, err := newInterp(job, ex)
			if err != nil {
				ex.mu.Lock()
				ex.EndMsgs["solver start: "+err.Error()]++
				ex.Ended["internal"]++
				ex.mu.Unlock()
				return
			}
			defer func() {
				for _, s := range in.solvers {
					s.Close()
				}
			}()
			in.resolveOverrides()
			for {
				p, ok := ex.popWork()
				if !ok {
					break
				}
				in.runPath(job.Entry, p)
				ex.doneWork()
			}
			ex.mu.Lock()
			for _, s := range in.solvers {
				ex.Queries += s.Queries
				ex.SolverTime += s.Time
				if s.Errors > 0 {
					ex.Ended["solver-error"] += s.Errors
					ex.EndMsgs["solver-error: "+s.kind+": "+s.LastError]++
				}
				if s.Recovered > 0 {
					ex.Warnings[fmt.Sprintf("solver %s answered `(error` %d time(s) (%s): query counted unknown, process discarded and restarted with the full stack", s.kind, s.Recovered, s.LastError)] = true
				}
				ex.PerSolver[s.kind] += s.Queries
			}
			for f := range in.funcsSeen {
				ex.Funcs[f.String()+" @"+in.pos(f.Pos())] = true
			}
			for w := range in.warnings {
				ex.Warnings[w] = true
			}
			ex.mu.Unlock()
		}()
	}
	wg.Wait()
	return ex
}

func (in *Interp) resolveOverrides() {
	for from, to := range in.cfg.Overrides {
		ff := findFunc(in.prog, from)
		tf := findFunc(in.prog, to)
		if ff == nil || tf == nil {
			in.warn("override %s -> %s cannot be resolved", from, to)
			continue
		}
		in.overrides[ff] = tf
	}
}
