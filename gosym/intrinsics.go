package main

// Intrinsics: harness API, math/big as SMT Int, opaque formatting/logging,
// sync/atomic, uninterpreted hashing, small std helpers that use unsafe/asm.

import (
	"crypto/sha256"
	"fmt"
	"go/types"
	"math/big"
	"sort"
	"strings"

	"golang.org/x/crypto/sha3"
	"golang.org/x/tools/go/ssa"
)

const modulePath = "github.com/zenon-network/go-zenon"

func findFunc(prog *ssa.Program, full string) *ssa.Function {
	// full: "pkg/path.Func" or "(*pkg/path.T).Method" or "(pkg/path.T).Method"
	if strings.HasPrefix(full, "(") {
		end := strings.Index(full, ").")
		recv := full[1:end]
		meth := full[end+2:]
		ptr := strings.HasPrefix(recv, "*")
		recv = strings.TrimPrefix(recv, "*")
		dot := strings.LastIndex(recv, ".")
		pkg := prog.ImportedPackage(recv[:dot])
		if pkg == nil {
			return nil
		}
		tn := pkg.Type(recv[dot+1:])
		if tn == nil {
			return nil
		}
		var T types.Type = tn.Type()
		if ptr {
			T = types.NewPointer(T)
		}
		return prog.LookupMethod(T, pkg.Pkg, meth)
	}
	dot := strings.LastIndex(full, ".")
	if dot < 0 {
		return nil
	}
	pkg := prog.ImportedPackage(full[:dot])
	if pkg == nil {
		return nil
	}
	return pkg.Func(full[dot+1:])
}

func (in *Interp) findIntrinsic(fn *ssa.Function) intrinsicFn {
	name := fn.String()
	if fn.Pkg != nil && strings.HasPrefix(fn.Name(), "verif") && fn.Parent() == nil && fn.Signature.Recv() == nil {
		if h, ok := harnessAPI[fn.Name()]; ok {
			return h
		}
	}
	if h, ok := intrinsics[name]; ok {
		return h
	}
	// families
	switch {
	case strings.HasPrefix(name, "(*math/big.Int)."):
		in.unsupportedIntrinsic(name)
	case strings.HasPrefix(name, "(github.com/inconshreveable/log15."), strings.HasPrefix(name, "(*github.com/inconshreveable/log15."),
		strings.HasPrefix(name, "github.com/inconshreveable/log15."):
		return func(in *Interp, fr *frame, fn *ssa.Function, args []Value) Value {
			return in.zeroResults(fn.Signature)
		}
	case strings.HasPrefix(name, "(*sync.Mutex)."), strings.HasPrefix(name, "(*sync.RWMutex)."), strings.HasPrefix(name, "(*sync.WaitGroup)."):
		return func(in *Interp, fr *frame, fn *ssa.Function, args []Value) Value {
			if fn.Name() == "TryLock" || fn.Name() == "TryRLock" {
				return in.tt.True
			}
			if fn.Name() == "RLocker" {
				in.unsupported("RLocker")
			}
			return nil
		}
	}
	return nil
}

func (in *Interp) unsupportedIntrinsic(name string) {
	// resolved lazily at call time
}

var intrinsics = map[string]intrinsicFn{}
var harnessAPI map[string]intrinsicFn

func asTerm(in *Interp, v Value) *Term {
	t, ok := v.(*Term)
	if !ok {
		in.unsupported("expected scalar, got %T", v)
	}
	return t
}

func asString(in *Interp, v Value) string {
	switch v := v.(type) {
	case string:
		return v
	case *SymStr:
		if s, ok := normStr(v).(string); ok {
			return s
		}
	}
	in.unsupported("expected concrete string, got %T", v)
	return ""
}

func (in *Interp) freshName(name string) string {
	k := in.nondetSeq[name]
	in.nondetSeq[name] = k + 1
	if k == 0 {
		return name
	}
	return fmt.Sprintf("%s#%d", name, k)
}

func (in *Interp) nondetVar(name string, s Sort) *Term {
	n := in.freshName(name)
	if in.cfg.Pin != nil {
		if v, ok := in.cfg.Pin[n]; ok {
			switch s.K {
			case SBool:
				return in.tt.Bool(v.Sign() != 0)
			case SBV:
				return in.tt.BVConst(v, s.W)
			default:
				return in.tt.IntConst(v)
			}
		}
	}
	v := in.tt.Var(n, s)
	in.path.nondets = append(in.path.nondets, v)
	return v
}

func (in *Interp) bigPtr(t *Term) Value {
	cell := new(Value)
	*cell = BigV{t}
	return cell
}

func (in *Interp) bigOf(v Value) *Term {
	p, ok := v.(*Value)
	if !ok {
		in.unsupported("big.Int pointer is %T", v)
	}
	if p == nil {
		panic(runtimeError{"runtime error: invalid memory address or nil pointer dereference (nil *big.Int)"})
	}
	b, ok := (*p).(BigV)
	if !ok {
		in.unsupported("big.Int cell holds %T", *p)
	}
	return b.T
}

func (in *Interp) bigSet(recv Value, t *Term) Value {
	p := recv.(*Value)
	if p == nil {
		panic(runtimeError{"runtime error: invalid memory address or nil pointer dereference (nil *big.Int receiver)"})
	}
	in.store(p, BigV{t})
	return recv
}

func pow2(n int) *big.Int { return new(big.Int).Lsh(bigOne, uint(n)) }

// bytesToNat: big-endian bytes → Int term
func (in *Interp) bytesToNat(bs []Value) *Term {
	if len(bs) == 0 {
		return in.tt.IntI(0)
	}
	acc := bs[0].(*Term)
	for _, b := range bs[1:] {
		acc = in.tt.Concat(acc, b.(*Term))
	}
	return in.dropMod(in.tt.Bv2Nat(acc))
}

// natToBytes: n big-endian bytes of (x mod 2^(8n))
func (in *Interp) natToBytes(x *Term, n int) SliceV {
	r := make(SliceV, n)
	if n == 0 {
		return r
	}
	bv := in.tt.Int2Bv(x, 8*n)
	for i := 0; i < n; i++ {
		hi := 8*(n-i) - 1
		r[i] = in.tt.Extract(bv, hi, hi-7)
	}
	return r
}

// bigByteLen determines the minimal byte length of |x| by branching.
func (in *Interp) bigByteLen(x *Term, max int) int {
	ax := in.tt.IAbs(x)
	for k := 0; k <= max; k++ {
		if in.branch(in.tt.ILt(ax, in.tt.IntConst(pow2(8*k)))) {
			return k
		}
	}
	in.unsupported("big.Int longer than %d bytes in Bytes()", max)
	return 0
}

type hashApp struct {
	arg *Term
	res *Term
}

// hashUF models a cryptographic hash of data as an uninterpreted function per
// input length; injectivity is added as path-condition axioms when the harness
// enables it (verifHashInjective).
func (in *Interp) hashUF(tag string, data []Value, outBytes int) Array {
	out := make(Array, outBytes)
	n := len(data)
	allConst := true
	for _, d := range data {
		if !d.(*Term).IsConst() {
			allConst = false
		}
	}
	var res *Term
	name := fmt.Sprintf("%s_%d", tag, n)
	{
		// the empty input is one more application (a fixed dummy argument term), so that it takes part in the
		// cross-length distinctness below
		acc := in.tt.BVU(0, 1)
		if n > 0 {
			acc = data[0].(*Term)
			for _, b := range data[1:] {
				acc = in.tt.Concat(acc, b.(*Term))
			}
		}
		// A hash application is a fresh digest variable per distinct argument term; congruence and
		// collision freedom against the other applications of the same function on this path are added
		// as facts: args equal <=> digests equal.  (No UF over multi-thousand-bit vectors: solvers choke.)
		for _, prev := range in.hashApps[name] {
			if prev.arg == acc {
				res = prev.res
			}
		}
		if res == nil {
			if allConst && outBytes == 32 && (tag == "sha3" || tag == "sha256") {
				// a concrete input has its real digest (one more value of the collision-free function: the axioms
				// below relate it to the symbolic applications exactly like a digest variable)
				raw := make([]byte, n)
				for i, d := range data {
					raw[i] = byte(d.(*Term).val.Uint64())
				}
				var sum [32]byte
				if tag == "sha3" {
					sum = sha3.Sum256(raw)
				} else {
					sum = sha256.Sum256(raw)
				}
				res = in.tt.BVConst(new(big.Int).SetBytes(sum[:]), 256)
			} else {
				res = in.tt.Var(fmt.Sprintf("%s#%d", name, len(in.hashApps[name])), BV(8*outBytes))
			}
			if in.path != nil {
				for _, prev := range in.hashApps[name] {
					in.addPC(in.tt.Eq(in.tt.Eq(prev.arg, acc), in.tt.Eq(prev.res, res)))
				}
				// inputs of different lengths are different inputs: their digests differ (collision freedom)
				for other, apps := range in.hashApps {
					if other != name && strings.HasPrefix(other, tag+"_") {
						for _, prev := range apps {
							if prev.res.sort == res.sort {
								in.addPC(in.tt.Not(in.tt.Eq(prev.res, res)))
							}
						}
					}
				}
			}
			in.hashApps[name] = append(in.hashApps[name], hashApp{acc, res})
		}
	}
	for i := 0; i < outBytes; i++ {
		hi := 8*(outBytes-i) - 1
		out[i] = in.tt.Extract(res, hi, hi-7)
	}
	return out
}

func sliceOf(in *Interp, v Value) SliceV {
	switch v := v.(type) {
	case SliceV:
		return v
	case nil:
		return nil
	}
	in.unsupported("expected slice, got %T", v)
	return nil
}

func (in *Interp) goString(v Value) (string, bool) {
	switch v := v.(type) {
	case string:
		return v, true
	case *SymStr:
		s, ok := normStr(v).(string)
		return s, ok
	}
	return "", false
}

// formatArgs renders Sprintf-style arguments when they are concrete enough.
func (in *Interp) sprintf(format string, args SliceV) Value {
	goArgs := make([]interface{}, len(args))
	for i, a := range args {
		goArgs[i] = in.toGo(a)
	}
	return fmt.Sprintf(format, goArgs...)
}

type symbolicArg struct{ s string }

func (s symbolicArg) String() string { return s.s }

func (in *Interp) toGo(v Value) interface{} {
	switch v := v.(type) {
	case Iface:
		if v.T == nil {
			return nil
		}
		if _, signed, ok := intInfo(v.T); ok {
			if t, isT := v.V.(*Term); isT && t.IsConst() {
				if signed {
					return toSigned(t.val, t.sort.W).Int64()
				}
				return t.val.Uint64()
			}
			return symbolicArg{"<sym>"}
		}
		if b, ok := v.T.Underlying().(*types.Basic); ok && b.Info()&types.IsBoolean != 0 {
			if t, isT := v.V.(*Term); isT && t.IsConst() {
				return t.IsTrue()
			}
			return symbolicArg{"<sym>"}
		}
		if s, ok := in.goString(v.V); ok {
			return s
		}
		// error / Stringer: use the message of errors.errorString when visible
		if p, ok := v.V.(*Value); ok && p != nil {
			if st, ok := (*p).(Struct); ok && len(st) == 1 {
				if s, ok := in.goString(st[0]); ok {
					return symbolicArg{s}
				}
			}
			if b, ok := (*p).(BigV); ok {
				if b.T.IsConst() {
					return b.T.val
				}
				return symbolicArg{"<big>"}
			}
		}
		return symbolicArg{"<" + v.T.String() + ">"}
	case *Term:
		if v.IsConst() {
			return v.val
		}
		return symbolicArg{"<sym>"}
	case string:
		return v
	}
	return symbolicArg{fmt.Sprintf("<%T>", v)}
}

func init() {
	harnessAPI = map[string]intrinsicFn{
		"verifNondetU64": func(in *Interp, fr *frame, fn *ssa.Function, a []Value) Value {
			return in.nondetVar(asString(in, a[0]), BV(64))
		},
		"verifNondetI64": func(in *Interp, fr *frame, fn *ssa.Function, a []Value) Value {
			return in.nondetVar(asString(in, a[0]), BV(64))
		},
		"verifNondetInt": func(in *Interp, fr *frame, fn *ssa.Function, a []Value) Value {
			return in.nondetVar(asString(in, a[0]), BV(64))
		},
		"verifNondetU32": func(in *Interp, fr *frame, fn *ssa.Function, a []Value) Value {
			return in.nondetVar(asString(in, a[0]), BV(32))
		},
		"verifNondetU16": func(in *Interp, fr *frame, fn *ssa.Function, a []Value) Value {
			return in.nondetVar(asString(in, a[0]), BV(16))
		},
		"verifNondetU8": func(in *Interp, fr *frame, fn *ssa.Function, a []Value) Value {
			return in.nondetVar(asString(in, a[0]), BV(8))
		},
		"verifNondetBool": func(in *Interp, fr *frame, fn *ssa.Function, a []Value) Value {
			return in.nondetVar(asString(in, a[0]), BoolSort)
		},
		"verifNondetBytes": func(in *Interp, fr *frame, fn *ssa.Function, a []Value) Value {
			name := in.freshName(asString(in, a[0]))
			n := int(in.concretizeInt(a[1], "NondetBytes length", ""))
			r := make(SliceV, n)
			for i := 0; i < n; i++ {
				vn := fmt.Sprintf("%s[%d]", name, i)
				if in.cfg.Pin != nil {
					if v, ok := in.cfg.Pin[vn]; ok {
						r[i] = in.tt.BVConst(v, 8)
						continue
					}
				}
				v := in.tt.Var(vn, BV(8))
				in.path.nondets = append(in.path.nondets, v)
				r[i] = v
			}
			return r
		},
		"verifNondetString": func(in *Interp, fr *frame, fn *ssa.Function, a []Value) Value {
			name := in.freshName(asString(in, a[0]))
			n := int(in.concretizeInt(a[1], "NondetString length", ""))
			s := &SymStr{B: make([]*Term, n)}
			for i := 0; i < n; i++ {
				vn := fmt.Sprintf("%s[%d]", name, i)
				if in.cfg.Pin != nil {
					if v, ok := in.cfg.Pin[vn]; ok {
						s.B[i] = in.tt.BVConst(v, 8)
						continue
					}
				}
				v := in.tt.Var(vn, BV(8))
				in.path.nondets = append(in.path.nondets, v)
				s.B[i] = v
			}
			return normStr(s)
		},
		"verifNondetBig": func(in *Interp, fr *frame, fn *ssa.Function, a []Value) Value {
			return in.bigPtr(in.nondetVar(asString(in, a[0]), IntSort))
		},
		"verifNondetLen": func(in *Interp, fr *frame, fn *ssa.Function, a []Value) Value {
			v := in.nondetVar(asString(in, a[0]), BV(64))
			lo, hi := asTerm(in, a[1]), asTerm(in, a[2])
			in.assume(in.tt.And(in.tt.BvSle(lo, v), in.tt.BvSle(v, hi)), "NondetLen range "+asString(in, a[0]))
			if v.IsConst() {
				return v
			}
			return in.tt.BVI(in.concretize(v, "NondetLen "+asString(in, a[0])), 64)
		},
		"verifChoose": func(in *Interp, fr *frame, fn *ssa.Function, a []Value) Value {
			n := int(in.concretizeInt(a[1], "choose n", ""))
			if n <= 1 {
				return in.tt.BVI(0, 64)
			}
			return in.tt.BVI(int64(in.chooseFree(n, asString(in, a[0]))), 64)
		},
		"verifAssume": func(in *Interp, fr *frame, fn *ssa.Function, a []Value) Value {
			in.assume(asTerm(in, a[0]), asString(in, a[1]))
			return nil
		},
		"verifAssert": func(in *Interp, fr *frame, fn *ssa.Function, a []Value) Value {
			in.assertProp(asTerm(in, a[0]), asString(in, a[1]), nil, "")
			return nil
		},
		"verifAssertKnown": func(in *Interp, fr *frame, fn *ssa.Function, a []Value) Value {
			in.assertProp(asTerm(in, a[0]), asString(in, a[1]), asTerm(in, a[2]), asString(in, a[3]))
			return nil
		},
		"verifReach": func(in *Interp, fr *frame, fn *ssa.Function, a []Value) Value {
			in.reach(asString(in, a[0]), asTerm(in, a[1]))
			return nil
		},
		"verifMapOrderNondet": func(in *Interp, fr *frame, fn *ssa.Function, a []Value) Value {
			in.mapNondet = asTerm(in, a[0]).IsTrue()
			return nil
		},
		"verifHash": func(in *Interp, fr *frame, fn *ssa.Function, a []Value) Value {
			return in.hashUF("H_"+asString(in, a[0]), sliceOf(in, a[1]), 32)
		},
		"verifIsSymbolic": func(in *Interp, fr *frame, fn *ssa.Function, a []Value) Value {
			return in.tt.True
		},
		"verifConcretize": func(in *Interp, fr *frame, fn *ssa.Function, a []Value) Value {
			t := asTerm(in, a[0])
			if t.IsConst() {
				return t
			}
			return in.tt.BVI(in.concretize(t, "verifConcretize"), t.sort.W)
		},
		"verifOutU64": func(in *Interp, fr *frame, fn *ssa.Function, a []Value) Value {
			t := asTerm(in, a[1])
			if !t.IsConst() {
				in.unsupported("verifOut of symbolic value")
			}
			in.path.outs = append(in.path.outs, fmt.Sprintf("%s=0x%x", asString(in, a[0]), t.val))
			return nil
		},
		"verifOutBool": func(in *Interp, fr *frame, fn *ssa.Function, a []Value) Value {
			t := asTerm(in, a[1])
			if !t.IsConst() {
				in.unsupported("verifOut of symbolic value")
			}
			in.path.outs = append(in.path.outs, fmt.Sprintf("%s=%v", asString(in, a[0]), t.IsTrue()))
			return nil
		},
		"verifOutBig": func(in *Interp, fr *frame, fn *ssa.Function, a []Value) Value {
			t := in.bigOf(a[1])
			if !t.IsConst() {
				in.unsupported("verifOut of symbolic value")
			}
			in.path.outs = append(in.path.outs, fmt.Sprintf("%s=%s", asString(in, a[0]), t.val.String()))
			return nil
		},
		"verifOutBytes": func(in *Interp, fr *frame, fn *ssa.Function, a []Value) Value {
			var sb strings.Builder
			for _, b := range sliceOf(in, a[1]) {
				t := b.(*Term)
				if !t.IsConst() {
					in.unsupported("verifOut of symbolic value")
				}
				fmt.Fprintf(&sb, "%02x", t.val.Uint64())
			}
			in.path.outs = append(in.path.outs, fmt.Sprintf("%s=%s", asString(in, a[0]), sb.String()))
			return nil
		},
		"verifParam": func(in *Interp, fr *frame, fn *ssa.Function, a []Value) Value {
			name := asString(in, a[0])
			if v, ok := in.cfg.Params[name]; ok {
				return in.tt.BVI(v, 64)
			}
			return a[1]
		},
		"verifBigEq": func(in *Interp, fr *frame, fn *ssa.Function, a []Value) Value {
			return in.tt.Eq(in.bigOf(a[0]), in.bigOf(a[1]))
		},
	}

	bigBin := func(f func(tt *TermTable, x, y *Term) *Term) intrinsicFn {
		return func(in *Interp, fr *frame, fn *ssa.Function, a []Value) Value {
			return in.bigSet(a[0], f(in.tt, in.bigOf(a[1]), in.bigOf(a[2])))
		}
	}
	divGuard := func(in *Interp, y *Term) {
		z := in.tt.Eq(y, in.tt.IntI(0))
		if z.IsTrue() || (!z.IsFalse() && in.branch(z)) {
			panic(runtimeError{"division by zero (math/big)"})
		}
	}

	base := map[string]intrinsicFn{
		"math/big.NewInt": func(in *Interp, fr *frame, fn *ssa.Function, a []Value) Value {
			return in.bigPtr(in.tt.Bv2Int(asTerm(in, a[0]), true))
		},
		"(*math/big.Int).Set": func(in *Interp, fr *frame, fn *ssa.Function, a []Value) Value {
			return in.bigSet(a[0], in.bigOf(a[1]))
		},
		"(*math/big.Int).SetUint64": func(in *Interp, fr *frame, fn *ssa.Function, a []Value) Value {
			return in.bigSet(a[0], in.tt.Bv2Int(asTerm(in, a[1]), false))
		},
		"(*math/big.Int).SetInt64": func(in *Interp, fr *frame, fn *ssa.Function, a []Value) Value {
			return in.bigSet(a[0], in.tt.Bv2Int(asTerm(in, a[1]), true))
		},
		"(*math/big.Int).Add": bigBin(func(tt *TermTable, x, y *Term) *Term { return tt.IAdd(x, y) }),
		"(*math/big.Int).Sub": bigBin(func(tt *TermTable, x, y *Term) *Term { return tt.ISub(x, y) }),
		"(*math/big.Int).Mul": bigBin(func(tt *TermTable, x, y *Term) *Term { return tt.IMul(x, y) }),
		"(*math/big.Int).Quo": func(in *Interp, fr *frame, fn *ssa.Function, a []Value) Value {
			x, y := in.bigOf(a[1]), in.bigOf(a[2])
			divGuard(in, y)
			return in.bigSet(a[0], in.tt.ITruncDiv(x, y))
		},
		"(*math/big.Int).Rem": func(in *Interp, fr *frame, fn *ssa.Function, a []Value) Value {
			x, y := in.bigOf(a[1]), in.bigOf(a[2])
			divGuard(in, y)
			return in.bigSet(a[0], in.tt.ITruncRem(x, y))
		},
		"(*math/big.Int).Div": func(in *Interp, fr *frame, fn *ssa.Function, a []Value) Value {
			x, y := in.bigOf(a[1]), in.bigOf(a[2])
			divGuard(in, y)
			return in.bigSet(a[0], in.tt.IDiv(x, y))
		},
		"(*math/big.Int).Mod": func(in *Interp, fr *frame, fn *ssa.Function, a []Value) Value {
			x, y := in.bigOf(a[1]), in.bigOf(a[2])
			divGuard(in, y)
			return in.bigSet(a[0], in.tt.IMod(x, y))
		},
		"(*math/big.Int).Neg": func(in *Interp, fr *frame, fn *ssa.Function, a []Value) Value {
			return in.bigSet(a[0], in.tt.INeg(in.bigOf(a[1])))
		},
		"(*math/big.Int).Abs": func(in *Interp, fr *frame, fn *ssa.Function, a []Value) Value {
			return in.bigSet(a[0], in.tt.IAbs(in.bigOf(a[1])))
		},
		"(*math/big.Int).Cmp": func(in *Interp, fr *frame, fn *ssa.Function, a []Value) Value {
			x, y := in.bigOf(a[0]), in.bigOf(a[1])
			tt := in.tt
			return tt.Ite(tt.ILt(x, y), tt.BVI(-1, 64), tt.Ite(tt.Eq(x, y), tt.BVI(0, 64), tt.BVI(1, 64)))
		},
		"(*math/big.Int).CmpAbs": func(in *Interp, fr *frame, fn *ssa.Function, a []Value) Value {
			x, y := in.tt.IAbs(in.bigOf(a[0])), in.tt.IAbs(in.bigOf(a[1]))
			tt := in.tt
			return tt.Ite(tt.ILt(x, y), tt.BVI(-1, 64), tt.Ite(tt.Eq(x, y), tt.BVI(0, 64), tt.BVI(1, 64)))
		},
		"(*math/big.Int).Sign": func(in *Interp, fr *frame, fn *ssa.Function, a []Value) Value {
			x := in.bigOf(a[0])
			tt := in.tt
			z := tt.IntI(0)
			return tt.Ite(tt.ILt(x, z), tt.BVI(-1, 64), tt.Ite(tt.Eq(x, z), tt.BVI(0, 64), tt.BVI(1, 64)))
		},
		"(*math/big.Int).Uint64": func(in *Interp, fr *frame, fn *ssa.Function, a []Value) Value {
			return in.tt.Int2Bv(in.tt.IAbs(in.bigOf(a[0])), 64)
		},
		"(*math/big.Int).Int64": func(in *Interp, fr *frame, fn *ssa.Function, a []Value) Value {
			x := in.bigOf(a[0])
			tt := in.tt
			lo := tt.Int2Bv(tt.IAbs(x), 64)
			return tt.Ite(tt.ILt(x, tt.IntI(0)), tt.BvNeg(lo), lo)
		},
		"(*math/big.Int).IsUint64": func(in *Interp, fr *frame, fn *ssa.Function, a []Value) Value {
			x := in.bigOf(a[0])
			return in.tt.And(in.tt.ILe(in.tt.IntI(0), x), in.tt.ILt(x, in.tt.IntConst(pow2(64))))
		},
		"(*math/big.Int).IsInt64": func(in *Interp, fr *frame, fn *ssa.Function, a []Value) Value {
			x := in.bigOf(a[0])
			return in.tt.And(in.tt.ILe(in.tt.IntConst(new(big.Int).Neg(pow2(63))), x), in.tt.ILt(x, in.tt.IntConst(pow2(63))))
		},
		"(*math/big.Int).BitLen": func(in *Interp, fr *frame, fn *ssa.Function, a []Value) Value {
			x := in.tt.IAbs(in.bigOf(a[0]))
			tt := in.tt
			if x.IsConst() {
				return tt.BVI(int64(x.val.BitLen()), 64)
			}
			return BitLenV{x}
		},
		"(*math/big.Int).SetBytes": func(in *Interp, fr *frame, fn *ssa.Function, a []Value) Value {
			return in.bigSet(a[0], in.bytesToNat(sliceOf(in, a[1])))
		},
		"(*math/big.Int).Bytes": func(in *Interp, fr *frame, fn *ssa.Function, a []Value) Value {
			x := in.bigOf(a[0])
			if x.IsConst() {
				bs := new(big.Int).Abs(x.val).Bytes()
				r := make(SliceV, len(bs))
				for i, b := range bs {
					r[i] = in.tt.BVU(uint64(b), 8)
				}
				return r
			}
			n := in.bigByteLen(x, 40)
			return in.natToBytes(in.tt.IAbs(x), n)
		},
		"(*math/big.Int).FillBytes": func(in *Interp, fr *frame, fn *ssa.Function, a []Value) Value {
			x := in.tt.IAbs(in.bigOf(a[0]))
			buf := sliceOf(in, a[1])
			fits := in.tt.ILt(x, in.tt.IntConst(pow2(8*len(buf))))
			if !fits.IsTrue() && (fits.IsFalse() || !in.branch(fits)) {
				panic(targetPanic{in.makeError("math/big: buffer too small to fit value")})
			}
			bs := in.natToBytes(x, len(buf))
			for i := range buf {
				in.store(&buf[i], bs[i])
			}
			return a[1]
		},
		"(*math/big.Int).Lsh": func(in *Interp, fr *frame, fn *ssa.Function, a []Value) Value {
			n := in.concretizeInt(a[2], "big.Lsh count", "")
			return in.bigSet(a[0], in.tt.IMul(in.bigOf(a[1]), in.tt.IntConst(pow2(int(n)))))
		},
		"(*math/big.Int).Rsh": func(in *Interp, fr *frame, fn *ssa.Function, a []Value) Value {
			n := in.concretizeInt(a[2], "big.Rsh count", "")
			// arithmetic shift = floor division
			return in.bigSet(a[0], in.tt.IDiv(in.bigOf(a[1]), in.tt.IntConst(pow2(int(n)))))
		},
		"(*math/big.Int).Exp": func(in *Interp, fr *frame, fn *ssa.Function, a []Value) Value {
			x, y := in.bigOf(a[1]), in.bigOf(a[2])
			if !y.IsConst() {
				in.unsupported("big.Exp with symbolic exponent")
			}
			if mp, ok := a[3].(*Value); ok && mp != nil {
				m := in.bigOf(a[3])
				if !(m.IsConst() && m.val.Sign() == 0) {
					if x.IsConst() && m.IsConst() {
						return in.bigSet(a[0], in.tt.IntConst(new(big.Int).Exp(x.val, y.val, m.val)))
					}
					in.unsupported("big.Exp with modulus")
				}
			}
			if y.val.Sign() <= 0 {
				return in.bigSet(a[0], in.tt.IntI(1))
			}
			if x.IsConst() {
				return in.bigSet(a[0], in.tt.IntConst(new(big.Int).Exp(x.val, y.val, nil)))
			}
			if y.val.Cmp(big.NewInt(8)) > 0 {
				in.unsupported("big.Exp symbolic base with exponent > 8")
			}
			r := in.tt.IntI(1)
			for i := int64(0); i < y.val.Int64(); i++ {
				r = in.tt.IMul(r, x)
			}
			return in.bigSet(a[0], r)
		},
		"(*math/big.Int).String": func(in *Interp, fr *frame, fn *ssa.Function, a []Value) Value {
			if p, ok := a[0].(*Value); ok && p == nil {
				return "<nil>"
			}
			x := in.bigOf(a[0])
			if x.IsConst() {
				return x.val.String()
			}
			return in.decimalUF(x)
		},
		"(*math/big.Int).Text": func(in *Interp, fr *frame, fn *ssa.Function, a []Value) Value {
			x := in.bigOf(a[0])
			base := in.concretizeInt(a[1], "big.Text base", "")
			if x.IsConst() {
				return x.val.Text(int(base))
			}
			in.unsupported("big.Text on symbolic value")
			return nil
		},
		"(*math/big.Int).SetString": func(in *Interp, fr *frame, fn *ssa.Function, a []Value) Value {
			s, ok := in.goString(a[1])
			if !ok {
				in.unsupported("big.SetString on symbolic string")
			}
			base := in.concretizeInt(a[2], "big.SetString base", "")
			v, good := new(big.Int).SetString(s, int(base))
			if !good {
				return Tuple{(*Value)(nil), in.tt.False}
			}
			in.bigSet(a[0], in.tt.IntConst(v))
			return Tuple{a[0], in.tt.True}
		},
		"(*math/big.Int).Bit": func(in *Interp, fr *frame, fn *ssa.Function, a []Value) Value {
			x := in.bigOf(a[0])
			i := in.concretizeInt(a[1], "big.Bit index", "")
			if x.IsConst() {
				return in.tt.BVU(uint64(x.val.Bit(int(i))), 64)
			}
			in.unsupported("big.Bit on symbolic value")
			return nil
		},

		// ---- formatting / errors: opaque
		"fmt.Sprintf": func(in *Interp, fr *frame, fn *ssa.Function, a []Value) Value {
			f, ok := in.goString(a[0])
			if !ok {
				return "<symbolic format>"
			}
			return in.sprintf(f, sliceOf(in, a[1]))
		},
		"fmt.Sprint": func(in *Interp, fr *frame, fn *ssa.Function, a []Value) Value {
			args := sliceOf(in, a[0])
			goArgs := make([]interface{}, len(args))
			for i, x := range args {
				goArgs[i] = in.toGo(x)
			}
			return fmt.Sprint(goArgs...)
		},
		"fmt.Errorf": func(in *Interp, fr *frame, fn *ssa.Function, a []Value) Value {
			f, ok := in.goString(a[0])
			if !ok {
				return in.makeError("<symbolic format>")
			}
			return in.makeError(in.sprintf(f, sliceOf(in, a[1])))
		},
		"fmt.Println": func(in *Interp, fr *frame, fn *ssa.Function, a []Value) Value {
			return Tuple{in.tt.BVI(0, 64), Iface{}}
		},
		"fmt.Printf": func(in *Interp, fr *frame, fn *ssa.Function, a []Value) Value {
			return Tuple{in.tt.BVI(0, 64), Iface{}}
		},
		"fmt.Print": func(in *Interp, fr *frame, fn *ssa.Function, a []Value) Value {
			return Tuple{in.tt.BVI(0, 64), Iface{}}
		},
		"github.com/pkg/errors.Errorf": func(in *Interp, fr *frame, fn *ssa.Function, a []Value) Value {
			f, ok := in.goString(a[0])
			if !ok {
				return in.makeError("<symbolic format>")
			}
			return in.makeError(in.sprintf(f, sliceOf(in, a[1])))
		},
		"github.com/pkg/errors.New": func(in *Interp, fr *frame, fn *ssa.Function, a []Value) Value {
			return in.makeError(a[0])
		},
		"github.com/pkg/errors.Wrap": func(in *Interp, fr *frame, fn *ssa.Function, a []Value) Value {
			if e, ok := a[0].(Iface); ok && e.T == nil {
				return Iface{}
			}
			return in.makeError("<wrapped>")
		},
		"github.com/pkg/errors.Wrapf": func(in *Interp, fr *frame, fn *ssa.Function, a []Value) Value {
			if e, ok := a[0].(Iface); ok && e.T == nil {
				return Iface{}
			}
			return in.makeError("<wrapped>")
		},
		"github.com/pkg/errors.WithStack": func(in *Interp, fr *frame, fn *ssa.Function, a []Value) Value {
			return a[0]
		},
		"runtime/debug.Stack": func(in *Interp, fr *frame, fn *ssa.Function, a []Value) Value {
			return SliceV{}
		},
		"runtime/debug.PrintStack": func(in *Interp, fr *frame, fn *ssa.Function, a []Value) Value { return nil },
		"os.Exit": func(in *Interp, fr *frame, fn *ssa.Function, a []Value) Value {
			panic(targetPanic{in.makeError("os.Exit called")})
		},
		"runtime.Gosched": func(in *Interp, fr *frame, fn *ssa.Function, a []Value) Value { return nil },

		// ---- sync
		"(*sync.Once).Do": func(in *Interp, fr *frame, fn *ssa.Function, a []Value) Value {
			p := a[0].(*Value)
			st := (*p).(Struct)
			// field 0 holds the done flag in every supported Go version (as uint32 or atomic.Uint32)
			done := false
			switch d := st[0].(type) {
			case *Term:
				done = !d.IsConst() || d.val.Sign() != 0
			case Struct:
				t := d[len(d)-1].(*Term)
				done = t.val.Sign() != 0
			}
			if done {
				return nil
			}
			switch d := st[0].(type) {
			case *Term:
				in.store(&st[0], in.tt.BVU(1, d.sort.W))
			case Struct:
				t := d[len(d)-1].(*Term)
				in.store(&d[len(d)-1], in.tt.BVU(1, t.sort.W))
			}
			in.call(fr, 0, a[1], nil)
			return nil
		},

		// ---- hashing
		modulePath + "/common/crypto.Hash": func(in *Interp, fr *frame, fn *ssa.Function, a []Value) Value {
			var data []Value
			for _, part := range sliceOf(in, a[0]) {
				data = append(data, sliceOf(in, part)...)
			}
			h := in.hashUF("sha3", data, 32)
			return SliceV(h)
		},
		modulePath + "/common/crypto.HashSHA256": func(in *Interp, fr *frame, fn *ssa.Function, a []Value) Value {
			var data []Value
			for _, part := range sliceOf(in, a[0]) {
				data = append(data, sliceOf(in, part)...)
			}
			h := in.hashUF("sha256", data, 32)
			return SliceV(h)
		},

		// ---- time
		"time.Now": func(in *Interp, fr *frame, fn *ssa.Function, a []Value) Value {
			sec := in.nondetVar("time.Now.sec", BV(64))
			tt := in.tt
			in.assume(tt.And(tt.BvSle(tt.BVI(1600000000, 64), sec), tt.BvSle(sec, tt.BVI(1<<40, 64))), "clock within [2020, year 36812]")
			if in.clock != nil {
				in.assume(tt.BvSle(in.clock, sec), "clock is non-decreasing")
			}
			in.clock = sec
			unix := findFunc(in.prog, "time.Unix")
			return in.callSSA(fr, 0, unix, []Value{sec, tt.BVI(0, 64)}, nil)
		},
		"(time.Duration).Seconds": func(in *Interp, fr *frame, fn *ssa.Function, a []Value) Value {
			d := asTerm(in, a[0])
			if d.IsConst() {
				return Float{float64(toSigned(d.val, 64).Int64()) / 1e9, 64}
			}
			tt := in.tt
			e9 := tt.BVI(1000000000, 64)
			whole := tt.Eq(tt.BvSrem(d, e9), tt.BVI(0, 64))
			if !in.truth(whole) {
				in.unsupported("Duration.Seconds on a symbolic sub-second duration (floating point is not encoded)")
			}
			sec := tt.BvSdiv(d, e9)
			small := tt.And(tt.BvSlt(tt.BVI(-(1<<53), 64), sec), tt.BvSlt(sec, tt.BVI(1<<53, 64)))
			if !in.truth(small) {
				in.unsupported("Duration.Seconds beyond 2^53 seconds")
			}
			return SymFloat{sec}
		},

		// ---- sort.Slice needs reflectlite.Swapper
		"internal/reflectlite.Swapper": func(in *Interp, fr *frame, fn *ssa.Function, a []Value) Value {
			return &Opaque{Kind: "swapper", Data: a[0].(Iface).V}
		},
		"sort.Slice": func(in *Interp, fr *frame, fn *ssa.Function, a []Value) Value {
			s := sliceOf(in, a[0].(Iface).V)
			less := a[1]
			in.insertionSort(fr, s, less)
			return nil
		},
		"sort.SliceStable": func(in *Interp, fr *frame, fn *ssa.Function, a []Value) Value {
			s := sliceOf(in, a[0].(Iface).V)
			less := a[1]
			in.insertionSort(fr, s, less)
			return nil
		},
		"bytes.Equal": func(in *Interp, fr *frame, fn *ssa.Function, a []Value) Value {
			x, y := sliceOf(in, a[0]), sliceOf(in, a[1])
			if len(x) != len(y) {
				return in.tt.False
			}
			r := in.tt.True
			for i := range x {
				r = in.tt.And(r, in.tt.Eq(x[i].(*Term), y[i].(*Term)))
			}
			return r
		},
		"bytes.Compare": func(in *Interp, fr *frame, fn *ssa.Function, a []Value) Value {
			x, y := sliceOf(in, a[0]), sliceOf(in, a[1])
			sx := &SymStr{B: make([]*Term, len(x))}
			sy := &SymStr{B: make([]*Term, len(y))}
			for i := range x {
				sx.B[i] = x[i].(*Term)
			}
			for i := range y {
				sy.B[i] = y[i].(*Term)
			}
			tt := in.tt
			return tt.Ite(in.symStrLess(sx, sy), tt.BVI(-1, 64), tt.Ite(in.symStrEq(sx, sy), tt.BVI(0, 64), tt.BVI(1, 64)))
		},
		"internal/bytealg.Equal": func(in *Interp, fr *frame, fn *ssa.Function, a []Value) Value {
			x, y := sliceOf(in, a[0]), sliceOf(in, a[1])
			if len(x) != len(y) {
				return in.tt.False
			}
			r := in.tt.True
			for i := range x {
				r = in.tt.And(r, in.tt.Eq(x[i].(*Term), y[i].(*Term)))
			}
			return r
		},
		"strings.EqualFold": func(in *Interp, fr *frame, fn *ssa.Function, a []Value) Value {
			x, okx := in.goString(a[0])
			y, oky := in.goString(a[1])
			if !okx || !oky {
				in.unsupported("EqualFold on symbolic strings")
			}
			return in.tt.Bool(strings.EqualFold(x, y))
		},
	}
	for k, v := range base {
		intrinsics[k] = v
	}
	for _, w := range []string{"32", "64"} {
		w := w
		for _, kind := range []string{"Uint", "Int"} {
			tname := kind + w
			intrinsics["sync/atomic.Load"+tname] = func(in *Interp, fr *frame, fn *ssa.Function, a []Value) Value { return in.load(a[0]) }
			intrinsics["sync/atomic.Store"+tname] = func(in *Interp, fr *frame, fn *ssa.Function, a []Value) Value {
				in.storeTo(a[0], a[1])
				return nil
			}
			intrinsics["sync/atomic.Add"+tname] = func(in *Interp, fr *frame, fn *ssa.Function, a []Value) Value {
				n := in.tt.BvAdd(in.load(a[0]).(*Term), a[1].(*Term))
				in.storeTo(a[0], n)
				return n
			}
			intrinsics["sync/atomic.Swap"+tname] = func(in *Interp, fr *frame, fn *ssa.Function, a []Value) Value {
				old := in.load(a[0])
				in.storeTo(a[0], a[1])
				return old
			}
			intrinsics["sync/atomic.CompareAndSwap"+tname] = func(in *Interp, fr *frame, fn *ssa.Function, a []Value) Value {
				old := in.load(a[0]).(*Term)
				eq := in.tt.Eq(old, a[1].(*Term))
				if eq.IsTrue() || (!eq.IsFalse() && in.branch(eq)) {
					in.storeTo(a[0], a[2])
					return in.tt.True
				}
				return in.tt.False
			}
		}
	}
	_ = sort.Ints
}

// decimalUF models the decimal string of a symbolic big.Int as an opaque value
// whose only supported consumer is StringToBigInt/SetString (identity pair).
func (in *Interp) decimalUF(x *Term) Value {
	in.unsupported("decimal rendering of a symbolic big.Int")
	return nil
}

// insertionSort sorts s in place with the harness-visible less(i,j) closure.
// Comparisons on symbolic data branch.
func (in *Interp) insertionSort(fr *frame, s SliceV, less Value) {
	n := len(s)
	for i := 1; i < n; i++ {
		for j := i; j > 0; j-- {
			r := in.call(fr, 0, less, []Value{in.tt.BVI(int64(j), 64), in.tt.BVI(int64(j-1), 64)})
			c := r.(*Term)
			if !(c.IsTrue() || (!c.IsFalse() && in.branch(c))) {
				break
			}
			a, b := copyVal(s[j]), copyVal(s[j-1])
			in.store(&s[j], b)
			in.store(&s[j-1], a)
		}
	}
}
