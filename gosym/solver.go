package main

// Solver: one long-lived SMT solver process (z3 -in / cvc5 --incremental) driven
// through SMT-LIB2 text with push/pop.  Definitions are global
// (:global-declarations) so a term is sent once per process.

import (
	"bufio"
	"fmt"
	"io"
	"math/big"
	"os"
	"os/exec"
	"strings"
	"sync"
	"time"
)

type Verdict int

const (
	Unsat Verdict = iota
	Sat
	Unknown
)

func (v Verdict) String() string { return [...]string{"unsat", "sat", "unknown"}[v] }

type Solver struct {
	kind       string // z3 | z3-new | cvc5 (+ "-int": bit-vectors translated to integer arithmetic)
	intMode    bool
	ranged     []map[string]bool // per push level: BV variables whose range is asserted there
	bvVars     map[int][]*Term   // term id → BV variables / BV-valued UF apps below it
	cmd        *exec.Cmd
	in         io.WriteCloser
	out        *bufio.Reader
	defined    map[int]bool // term ids already defined
	declV      map[string]bool
	declF      map[string]bool
	depth      int
	asserted   int // number of path-condition entries on the stack (managed by Interp)
	Queries    int
	Time       time.Duration
	timeout    int // ms per query (full)
	curTimeout int // ms currently set in the solver process
	log        io.Writer
	Errors     int
	LastError  string
	Crashed    int
	Recovered  int // `(error` responses answered by discarding the process
	mu         sync.Mutex
	busy       bool
	cancelled  bool // set by Kill: a check that has not started yet returns Unknown at once
	Hung       int
	dead       bool
}

func NewSolver(kind string, timeoutMs int) (*Solver, error) {
	var cmd *exec.Cmd
	full := kind
	intMode := strings.HasSuffix(kind, "-int")
	kind = strings.TrimSuffix(kind, "-int")
	switch kind {
	case "z3", "z3-new":
		cmd = exec.Command(kind, "-in", "-smt2")
	case "cvc5":
		cmd = exec.Command("cvc5", "--incremental", "--lang=smt2", "--produce-models",
			fmt.Sprintf("--tlimit-per=%d", timeoutMs), "--solve-bv-as-int=off")
	default:
		return nil, fmt.Errorf("unknown solver %q", kind)
	}
	in, err := cmd.StdinPipe()
	if err != nil {
		return nil, err
	}
	outp, err := cmd.StdoutPipe()
	if err != nil {
		return nil, err
	}
	cmd.Stderr = nil
	if err := cmd.Start(); err != nil {
		return nil, err
	}
	s := &Solver{kind: full, intMode: intMode, ranged: []map[string]bool{{}}, bvVars: map[int][]*Term{}, cmd: cmd, in: in, out: bufio.NewReaderSize(outp, 1<<20),
		defined: map[int]bool{}, declV: map[string]bool{}, declF: map[string]bool{}, timeout: timeoutMs, curTimeout: timeoutMs}
	s.send("(set-option :global-declarations true)")
	s.send("(set-option :produce-models true)")
	if kind != "cvc5" {
		s.send(fmt.Sprintf("(set-option :timeout %d)", timeoutMs))
	}
	_ = full
	s.send("(set-logic ALL)")
	// bv2nat spelling differs: cvc5 1.0 and z3 both accept bv2nat.
	return s, nil
}

// Kill ends a solver that lost a race while it may still be inside a check; Check then returns Unknown and the next use
// restarts a fresh process.  A solver that is idle is left alone.
func (s *Solver) Kill() {
	s.mu.Lock()
	busy := s.busy
	s.cancelled = true
	s.mu.Unlock()
	if busy && !s.dead {
		s.dead = true
		s.cmd.Process.Kill()
	}
}

func (s *Solver) noteError(r string) {
	if len(r) > 300 {
		r = r[:300]
	}
	s.LastError = r
	fmt.Fprintf(os.Stderr, "SOLVER-ERROR %s: %s\n", s.kind, r)
}

// SetTimeout changes the per-query time limit (z3 family only; cvc5's limit is fixed at start). Returns false if
// the solver cannot change it.
func (s *Solver) SetTimeout(ms int) bool {
	if strings.HasPrefix(s.kind, "cvc5") {
		return ms == s.curTimeout
	}
	if ms != s.curTimeout && !s.dead {
		s.send(fmt.Sprintf("(set-option :timeout %d)", ms))
		s.curTimeout = ms
	}
	return true
}

// Restart replaces a dead solver process by a fresh one (all definitions and assertions are lost).
func (s *Solver) Restart() error {
	n, err := NewSolver(s.kind, s.timeout)
	if err != nil {
		return err
	}
	n.Queries, n.Time, n.Errors, n.Hung, n.Crashed, n.Recovered, n.LastError, n.log = s.Queries, s.Time, s.Errors, s.Hung, s.Crashed, s.Recovered, s.LastError, s.log
	*s = *n
	return nil
}

func (s *Solver) Close() {
	if s == nil || s.dead {
		return
	}
	s.dead = true
	s.in.Close()
	done := make(chan struct{})
	go func() { s.cmd.Wait(); close(done) }()
	select {
	case <-done:
	case <-time.After(2 * time.Second):
		s.cmd.Process.Kill()
	}
}

func (s *Solver) send(line string) {
	if s.log != nil {
		fmt.Fprintln(s.log, line)
	}
	io.WriteString(s.in, line)
	io.WriteString(s.in, "\n")
}

// readResponse reads one complete s-expression or atom line from the solver.
func (s *Solver) readResponse() string {
	var sb strings.Builder
	depth := 0
	started := false
	inBar := false
	inStr := false
	for {
		c, err := s.out.ReadByte()
		if err != nil {
			s.dead = true
			return sb.String() + "(error \"solver died\")"
		}
		if !started {
			if c == '\n' || c == ' ' || c == '\r' || c == '\t' {
				continue
			}
			started = true
		}
		sb.WriteByte(c)
		switch {
		case inBar:
			if c == '|' {
				inBar = false
			}
		case inStr:
			if c == '"' {
				inStr = false
			}
		case c == '|':
			inBar = true
		case c == '"':
			inStr = true
		case c == '(':
			depth++
		case c == ')':
			depth--
			if depth == 0 {
				return sb.String()
			}
		case c == '\n':
			if depth == 0 {
				return strings.TrimSpace(sb.String())
			}
		}
	}
}

// define makes sure t (and everything below it) is known to the solver and
// returns how to refer to it.
func (s *Solver) define(t *Term, tt *TermTable) string {
	switch t.op {
	case OConst:
		return t.ref()
	case OVar:
		s.declVar(t)
		return t.ref()
	}
	if s.defined[t.id] {
		return t.ref()
	}
	// iterative post-order to avoid deep recursion on long chains
	type item struct {
		t    *Term
		done bool
	}
	stack := []item{{t, false}}
	for len(stack) > 0 {
		it := stack[len(stack)-1]
		stack = stack[:len(stack)-1]
		x := it.t
		if x.op == OConst || s.defined[x.id] {
			continue
		}
		if x.op == OVar {
			s.declVar(x)
			continue
		}
		if !it.done {
			stack = append(stack, item{x, true})
			for _, a := range x.args {
				if a.op != OConst && !s.defined[a.id] {
					stack = append(stack, item{a, false})
				}
			}
			continue
		}
		if x.op == OApp && !s.declF[x.name] {
			s.declF[x.name] = true
			uf := tt.ufs[x.name]
			var as []string
			for _, a := range uf.Args {
				as = append(as, s.sortName(a))
			}
			s.send(fmt.Sprintf("(declare-fun %s (%s) %s)", smtName(x.name), strings.Join(as, " "), s.sortName(uf.Ret)))
		}
		s.defined[x.id] = true
		if s.intMode {
			s.send(fmt.Sprintf("(define-fun d!%d () %s %s)", x.id, s.sortName(x.sort), s.bodyInt(x)))
		} else {
			s.send(fmt.Sprintf("(define-fun d!%d () %s %s)", x.id, x.sort, x.body(s.kind)))
		}
	}
	return t.ref()
}

func (s *Solver) Push() {
	s.send("(push 1)")
	s.depth++
	s.ranged = append(s.ranged, map[string]bool{})
}

func (s *Solver) Pop(n int) {
	if n <= 0 {
		return
	}
	s.send(fmt.Sprintf("(pop %d)", n))
	s.depth -= n
	s.ranged = s.ranged[:len(s.ranged)-n]
}

func (s *Solver) Assert(t *Term, tt *TermTable) {
	r := s.define(t, tt)
	if s.intMode {
		s.assertRanges(t)
	}
	s.send("(assert " + r + ")")
}

func (s *Solver) sortName(x Sort) string {
	if s.intMode && x.K == SBV {
		return "Int"
	}
	return x.String()
}

func (s *Solver) declVar(t *Term) {
	if !s.declV[t.name] {
		s.declV[t.name] = true
		s.send(fmt.Sprintf("(declare-fun %s () %s)", smtName(t.name), s.sortName(t.sort)))
	}
}

// collectBV returns the bit-vector variables below t (cached).
func (s *Solver) collectBV(t *Term) []*Term {
	if r, ok := s.bvVars[t.id]; ok {
		return r
	}
	seen := map[int]bool{}
	var res []*Term
	var walk func(x *Term)
	walk = func(x *Term) {
		if seen[x.id] {
			return
		}
		seen[x.id] = true
		if x.op == OVar && x.sort.K == SBV {
			res = append(res, x)
		}
		for _, a := range x.args {
			walk(a)
		}
	}
	walk(t)
	s.bvVars[t.id] = res
	return res
}

// assertRanges asserts 0 <= v < 2^w for every bit-vector variable of t whose
// range is not yet asserted at a live level.
func (s *Solver) assertRanges(t *Term) {
	for _, v := range s.collectBV(t) {
		live := false
		for _, m := range s.ranged {
			if m[v.name] {
				live = true
				break
			}
		}
		if live {
			continue
		}
		s.ranged[len(s.ranged)-1][v.name] = true
		n := smtName(v.name)
		s.send(fmt.Sprintf("(assert (and (<= 0 %s) (< %s %s)))", n, n, pow2(v.sort.W).String()))
	}
}

func maskRuns(c *big.Int, w int) [][2]int {
	var runs [][2]int
	i := 0
	for i < w {
		if c.Bit(i) == 1 {
			j := i
			for j+1 < w && c.Bit(j+1) == 1 {
				j++
			}
			runs = append(runs, [2]int{i, j})
			i = j + 1
		} else {
			i++
		}
	}
	return runs
}

// bodyInt prints term x with every bit-vector (sub)term represented by its
// unsigned integer value in [0,2^w).
func (s *Solver) bodyInt(x *Term) string {
	if len(x.args) == 0 {
		return x.ref()
	}
	isBV := func(t *Term) bool { return t.sort.K == SBV }
	a := func(i int) string {
		t := x.args[i]
		if t.op == OConst && isBV(t) {
			return t.val.String()
		}
		return t.ref()
	}
	anyBV := isBV(x)
	for _, t := range x.args {
		if isBV(t) {
			anyBV = true
		}
	}
	if !anyBV {
		return x.body(s.kind)
	}
	w := 0
	if isBV(x.args[0]) {
		w = x.args[0].sort.W
	} else if isBV(x) {
		w = x.sort.W
	}
	M := pow2(w).String()
	H := "0"
	if w > 0 {
		H = pow2(w - 1).String()
	}
	sgn := func(v string) string { return fmt.Sprintf("(ite (< %s %s) %s (- %s %s))", v, H, v, v, M) }
	switch x.op {
	case OEq:
		return fmt.Sprintf("(= %s %s)", a(0), a(1))
	case OIte:
		return fmt.Sprintf("(ite %s %s %s)", x.args[0].ref(), a(1), a(2))
	case OBvAdd:
		return fmt.Sprintf("(let ((s (+ %s %s))) (ite (< s %s) s (- s %s)))", a(0), a(1), M, M)
	case OBvSub:
		return fmt.Sprintf("(let ((s (- %s %s))) (ite (>= s 0) s (+ s %s)))", a(0), a(1), M)
	case OBvMul:
		return fmt.Sprintf("(mod (* %s %s) %s)", a(0), a(1), M)
	case OBvUdiv:
		return fmt.Sprintf("(ite (= %s 0) %s (div %s %s))", a(1), mask(w).String(), a(0), a(1))
	case OBvUrem:
		return fmt.Sprintf("(ite (= %s 0) %s (mod %s %s))", a(1), a(0), a(0), a(1))
	case OBvSdiv:
		return fmt.Sprintf("(let ((sa %s) (sb %s)) (ite (= sb 0) (ite (< sa 0) 1 %s) (let ((q (div (abs sa) (abs sb)))) (mod (ite (= (< sa 0) (< sb 0)) q (- q)) %s))))",
			sgn(a(0)), sgn(a(1)), mask(w).String(), M)
	case OBvSrem:
		return fmt.Sprintf("(let ((sa %s) (sb %s)) (ite (= sb 0) %s (let ((r (mod (abs sa) (abs sb)))) (mod (ite (< sa 0) (- r) r) %s))))",
			sgn(a(0)), sgn(a(1)), a(0), M)
	case OBvNot:
		return fmt.Sprintf("(- %s %s)", mask(w).String(), a(0))
	case OBvNeg:
		return fmt.Sprintf("(ite (= %s 0) 0 (- %s %s))", a(0), M, a(0))
	case OBvAnd, OBvOr, OBvXor:
		var c *Term
		var v string
		if x.args[0].op == OConst {
			c, v = x.args[0], a(1)
		} else if x.args[1].op == OConst {
			c, v = x.args[1], a(0)
		}
		if c != nil {
			var parts []string
			for _, r := range maskRuns(c.val, w) {
				lo, hi := r[0], r[1]
				e := v
				if lo > 0 {
					e = fmt.Sprintf("(div %s %s)", e, pow2(lo).String())
				}
				if hi < w-1 {
					e = fmt.Sprintf("(mod %s %s)", e, pow2(hi-lo+1).String())
				}
				if lo > 0 {
					e = fmt.Sprintf("(* %s %s)", e, pow2(lo).String())
				}
				parts = append(parts, e)
			}
			and := "0"
			if len(parts) == 1 {
				and = parts[0]
			} else if len(parts) > 1 {
				and = "(+ " + strings.Join(parts, " ") + ")"
			}
			switch x.op {
			case OBvAnd:
				return and
			case OBvOr:
				return fmt.Sprintf("(- (+ %s %s) %s)", v, c.val.String(), and)
			default:
				return fmt.Sprintf("(- (+ %s %s) (* 2 %s))", v, c.val.String(), and)
			}
		}
		var parts []string
		for i := 0; i < w; i++ {
			p := pow2(i).String()
			ba := fmt.Sprintf("(= 1 (mod (div %s %s) 2))", a(0), p)
			bb := fmt.Sprintf("(= 1 (mod (div %s %s) 2))", a(1), p)
			var cond string
			switch x.op {
			case OBvAnd:
				cond = fmt.Sprintf("(and %s %s)", ba, bb)
			case OBvOr:
				cond = fmt.Sprintf("(or %s %s)", ba, bb)
			default:
				cond = fmt.Sprintf("(xor %s %s)", ba, bb)
			}
			parts = append(parts, fmt.Sprintf("(ite %s %s 0)", cond, p))
		}
		if len(parts) == 1 {
			return parts[0]
		}
		return "(+ " + strings.Join(parts, " ") + ")"
	case OBvShl, OBvLshr, OBvAshr:
		one := func(k int) string {
			p := pow2(k).String()
			switch x.op {
			case OBvShl:
				return fmt.Sprintf("(mod (* %s %s) %s)", a(0), p, M)
			case OBvLshr:
				return fmt.Sprintf("(div %s %s)", a(0), p)
			}
			return fmt.Sprintf("(mod (div %s %s) %s)", sgn(a(0)), p, M)
		}
		over := "0"
		if x.op == OBvAshr {
			over = fmt.Sprintf("(ite (< %s %s) 0 %s)", a(0), H, mask(w).String())
		}
		if c := x.args[1]; c.op == OConst {
			if c.val.Cmp(big.NewInt(int64(w))) >= 0 {
				return over
			}
			return one(int(c.val.Int64()))
		}
		r := over
		for k := w - 1; k >= 0; k-- {
			r = fmt.Sprintf("(ite (= %s %d) %s %s)", a(1), k, one(k), r)
		}
		return r
	case OBvUlt:
		return fmt.Sprintf("(< %s %s)", a(0), a(1))
	case OBvUle:
		return fmt.Sprintf("(<= %s %s)", a(0), a(1))
	case OBvSlt:
		return fmt.Sprintf("(< %s %s)", sgn(a(0)), sgn(a(1)))
	case OBvSle:
		return fmt.Sprintf("(<= %s %s)", sgn(a(0)), sgn(a(1)))
	case OZext:
		return a(0)
	case OSext:
		iw := x.args[0].sort.W
		ext := new(big.Int).Sub(pow2(x.sort.W), pow2(iw)).String()
		return fmt.Sprintf("(ite (< %s %s) %s (+ %s %s))", a(0), pow2(iw-1).String(), a(0), a(0), ext)
	case OExtract:
		e := a(0)
		if x.p2 > 0 {
			e = fmt.Sprintf("(div %s %s)", e, pow2(x.p2).String())
		}
		if x.p1 < x.args[0].sort.W-1 {
			e = fmt.Sprintf("(mod %s %s)", e, pow2(x.p1-x.p2+1).String())
		}
		if e == a(0) {
			e = fmt.Sprintf("(+ 0 %s)", e)
		}
		return e
	case OConcat:
		return fmt.Sprintf("(+ (* %s %s) %s)", a(0), pow2(x.args[1].sort.W).String(), a(1))
	case OBv2Nat:
		return fmt.Sprintf("(+ 0 %s)", a(0))
	case OInt2Bv:
		return fmt.Sprintf("(mod %s %s)", a(0), pow2(x.p1).String())
	case OApp:
		var as []string
		for i := range x.args {
			as = append(as, a(i))
		}
		call := "(" + smtName(x.name) + " " + strings.Join(as, " ") + ")"
		if isBV(x) {
			return fmt.Sprintf("(mod %s %s)", call, pow2(x.sort.W).String())
		}
		return call
	}
	panic("bodyInt: unhandled op " + opNames[x.op])
}

func (s *Solver) Check() Verdict {
	if s.dead {
		return Unknown
	}
	start := time.Now()
	errBefore := s.Errors
	s.mu.Lock()
	if s.cancelled {
		s.mu.Unlock()
		return Unknown
	}
	s.busy = true
	s.mu.Unlock()
	defer func() {
		s.mu.Lock()
		s.busy = false
		s.mu.Unlock()
	}()
	s.send("(check-sat)")
	var resp string
	done := make(chan string, 1)
	go func() {
		var r string
		for {
			r = s.readResponse()
			if strings.HasPrefix(r, "(error") {
				if s.dead && strings.Contains(r, "solver died") {
					// the process was killed by the watchdog or crashed: this query is unknown, the caller restarts a
					// fresh process and re-asserts the whole stack, so nothing is silently dropped
					s.Crashed++
					break
				}
				s.Errors++
				s.noteError(r)
				if s.dead {
					break
				}
				continue
			}
			break
		}
		done <- r
	}()
	select {
	case resp = <-done:
	case <-time.After(time.Duration(2*s.curTimeout+3000) * time.Millisecond):
		// the solver ignored its own time limit: kill it; the caller restarts a fresh process
		s.dead = true
		s.Hung++
		s.cmd.Process.Kill()
		<-done
		s.Queries++
		s.Time += time.Since(start)
		return Unknown
	}
	s.Queries++
	s.Time += time.Since(start)
	if s.Errors > errBefore {
		// an `(error` line: this query is unknown, and the process is discarded so that an assertion the solver may
		// have dropped cannot influence later queries - the next use starts a fresh process and re-asserts the whole stack
		s.Recovered += s.Errors - errBefore
		s.Errors = errBefore
		if !s.dead {
			s.dead = true
			s.cmd.Process.Kill()
		}
		return Unknown
	}
	switch resp {
	case "sat":
		return Sat
	case "unsat":
		return Unsat
	}
	return Unknown
}

// CheckWith checks the current stack plus the extra assertion, leaving the
// stack unchanged.
func (s *Solver) CheckWith(t *Term, tt *TermTable) Verdict {
	s.Push()
	s.Assert(t, tt)
	v := s.Check()
	s.Pop(1)
	return v
}

// Values fetches the model values of the given variables after a Sat verdict.
// It must be called before the scope of the check is popped.
func (s *Solver) Values(vars []*Term, tt *TermTable) map[string]*big.Int {
	res := map[string]*big.Int{}
	for i := 0; i < len(vars); i += 64 {
		j := i + 64
		if j > len(vars) {
			j = len(vars)
		}
		var names []string
		for _, v := range vars[i:j] {
			names = append(names, s.define(v, tt))
		}
		s.send("(get-value (" + strings.Join(names, " ") + "))")
		resp := s.readResponse()
		if strings.HasPrefix(resp, "(error") {
			s.Errors++
			s.noteError(resp)
			return res
		}
		parseValues(resp, res)
	}
	return res
}

// parseValues parses "((|a| #x01) (|b| (- 5)) (|c| true))".
func parseValues(resp string, res map[string]*big.Int) {
	toks := tokenize(resp)
	// toks: ( ( name value... ) ( name value ) )
	i := 0
	next := func() string {
		if i < len(toks) {
			t := toks[i]
			i++
			return t
		}
		return ""
	}
	if next() != "(" {
		return
	}
	for i < len(toks) {
		if toks[i] == ")" {
			break
		}
		if next() != "(" {
			return
		}
		name := next()
		name = strings.Trim(name, "|")
		// value: atom or ( - n ) or (_ bvN w)
		var val *big.Int
		t := next()
		if t == "(" {
			op := next()
			switch op {
			case "-":
				n := next()
				v, _ := new(big.Int).SetString(n, 10)
				if v != nil {
					val = v.Neg(v)
				}
				next() // )
			case "_":
				n := next() // bvNNN
				next()      // width
				v, _ := new(big.Int).SetString(strings.TrimPrefix(n, "bv"), 10)
				val = v
				next() // )
			default:
				// skip unknown structure
				d := 1
				for d > 0 && i < len(toks) {
					x := next()
					if x == "(" {
						d++
					} else if x == ")" {
						d--
					}
				}
			}
		} else {
			switch {
			case t == "true":
				val = big.NewInt(1)
			case t == "false":
				val = big.NewInt(0)
			case strings.HasPrefix(t, "#x"):
				val, _ = new(big.Int).SetString(t[2:], 16)
			case strings.HasPrefix(t, "#b"):
				val, _ = new(big.Int).SetString(t[2:], 2)
			default:
				val, _ = new(big.Int).SetString(t, 10)
			}
		}
		next() // )
		if val != nil {
			res[name] = val
		}
	}
}

func tokenize(s string) []string {
	var toks []string
	i := 0
	for i < len(s) {
		c := s[i]
		switch {
		case c == '(' || c == ')':
			toks = append(toks, string(c))
			i++
		case c == ' ' || c == '\n' || c == '\t' || c == '\r':
			i++
		case c == '|':
			j := i + 1
			for j < len(s) && s[j] != '|' {
				j++
			}
			toks = append(toks, s[i:j+1])
			i = j + 1
		default:
			j := i
			for j < len(s) && !strings.ContainsRune("() \n\t\r", rune(s[j])) {
				j++
			}
			toks = append(toks, s[i:j])
			i = j
		}
	}
	return toks
}
