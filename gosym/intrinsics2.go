package main

// Intrinsics for assembly-backed std helpers (internal/bytealg, unsafe string
// builders) and code that cannot run during lazy package init (protobuf
// registration).

import (
	"fmt"
	"regexp"
	"strings"

	"golang.org/x/tools/go/ssa"
)

// bytesOf returns the byte terms of a []byte or string value.
func (in *Interp) bytesOf(v Value) []*Term {
	switch v := v.(type) {
	case SliceV:
		r := make([]*Term, len(v))
		for i, b := range v {
			r[i] = b.(*Term)
		}
		return r
	case string, *SymStr:
		return in.toSymStr(v).B
	case nil:
		return nil
	}
	in.unsupported("bytesOf %T", v)
	return nil
}

func (in *Interp) truth(c *Term) bool {
	if c.IsConst() {
		return c.IsTrue()
	}
	return in.branch(c)
}

func (in *Interp) indexByte(b []*Term, c *Term) Value {
	for i, x := range b {
		if in.truth(in.tt.Eq(x, c)) {
			return in.tt.BVI(int64(i), 64)
		}
	}
	return in.tt.BVI(-1, 64)
}

func (in *Interp) indexSeq(a, b []*Term) Value {
	if len(b) == 0 {
		return in.tt.BVI(0, 64)
	}
	for i := 0; i+len(b) <= len(a); i++ {
		eq := in.tt.True
		for j := range b {
			eq = in.tt.And(eq, in.tt.Eq(a[i+j], b[j]))
		}
		if in.truth(eq) {
			return in.tt.BVI(int64(i), 64)
		}
	}
	return in.tt.BVI(-1, 64)
}

func init() {
	add := func(name string, f intrinsicFn) { intrinsics[name] = f }
	add("internal/bytealg.IndexByte", func(in *Interp, fr *frame, fn *ssa.Function, a []Value) Value {
		return in.indexByte(in.bytesOf(a[0]), asTerm(in, a[1]))
	})
	add("internal/bytealg.IndexByteString", func(in *Interp, fr *frame, fn *ssa.Function, a []Value) Value {
		return in.indexByte(in.bytesOf(a[0]), asTerm(in, a[1]))
	})
	add("internal/bytealg.LastIndexByteString", func(in *Interp, fr *frame, fn *ssa.Function, a []Value) Value {
		b := in.bytesOf(a[0])
		c := asTerm(in, a[1])
		for i := len(b) - 1; i >= 0; i-- {
			if in.truth(in.tt.Eq(b[i], c)) {
				return in.tt.BVI(int64(i), 64)
			}
		}
		return in.tt.BVI(-1, 64)
	})
	count := func(in *Interp, fr *frame, fn *ssa.Function, a []Value) Value {
		b := in.bytesOf(a[0])
		c := asTerm(in, a[1])
		n := in.tt.BVI(0, 64)
		for _, x := range b {
			n = in.tt.BvAdd(n, in.tt.Ite(in.tt.Eq(x, c), in.tt.BVI(1, 64), in.tt.BVI(0, 64)))
		}
		return n
	}
	add("internal/bytealg.Count", count)
	add("internal/bytealg.CountString", count)
	add("internal/bytealg.Index", func(in *Interp, fr *frame, fn *ssa.Function, a []Value) Value {
		return in.indexSeq(in.bytesOf(a[0]), in.bytesOf(a[1]))
	})
	add("internal/bytealg.IndexString", func(in *Interp, fr *frame, fn *ssa.Function, a []Value) Value {
		return in.indexSeq(in.bytesOf(a[0]), in.bytesOf(a[1]))
	})
	add("internal/bytealg.Compare", func(in *Interp, fr *frame, fn *ssa.Function, a []Value) Value {
		sx, sy := &SymStr{B: in.bytesOf(a[0])}, &SymStr{B: in.bytesOf(a[1])}
		tt := in.tt
		return tt.Ite(in.symStrLess(sx, sy), tt.BVI(-1, 64), tt.Ite(in.symStrEq(sx, sy), tt.BVI(0, 64), tt.BVI(1, 64)))
	})
	add("internal/bytealg.MakeNoZero", func(in *Interp, fr *frame, fn *ssa.Function, a []Value) Value {
		n := in.concretizeInt(a[0], "MakeNoZero", "")
		r := make(SliceV, n)
		z := in.tt.BVU(0, 8)
		for i := range r {
			r[i] = z
		}
		return r
	})
	add("internal/stringslite.Index", func(in *Interp, fr *frame, fn *ssa.Function, a []Value) Value {
		return in.indexSeq(in.bytesOf(a[0]), in.bytesOf(a[1]))
	})
	add("strings.Index", func(in *Interp, fr *frame, fn *ssa.Function, a []Value) Value {
		return in.indexSeq(in.bytesOf(a[0]), in.bytesOf(a[1]))
	})
	add("bytes.Index", func(in *Interp, fr *frame, fn *ssa.Function, a []Value) Value {
		return in.indexSeq(in.bytesOf(a[0]), in.bytesOf(a[1]))
	})
	// strings.Builder: the unsafe parts only
	add("(*strings.Builder).copyCheck", func(in *Interp, fr *frame, fn *ssa.Function, a []Value) Value { return nil })
	add("(*strings.Builder).String", func(in *Interp, fr *frame, fn *ssa.Function, a []Value) Value {
		p := a[0].(*Value)
		st := (*p).(Struct)
		buf, _ := st[1].(SliceV)
		s := &SymStr{B: make([]*Term, len(buf))}
		for i, b := range buf {
			s.B[i] = b.(*Term)
		}
		return normStr(s)
	})
	add("strings.Clone", func(in *Interp, fr *frame, fn *ssa.Function, a []Value) Value { return a[0] })
	add("strings.ToLower", func(in *Interp, fr *frame, fn *ssa.Function, a []Value) Value {
		if s, ok := in.goString(a[0]); ok {
			return strings.ToLower(s)
		}
		in.unsupported("strings.ToLower on symbolic string")
		return nil
	})
	add("strings.ToUpper", func(in *Interp, fr *frame, fn *ssa.Function, a []Value) Value {
		if s, ok := in.goString(a[0]); ok {
			return strings.ToUpper(s)
		}
		in.unsupported("strings.ToUpper on symbolic string")
		return nil
	})
	// protobuf registration cannot run under the interpreter; generated
	// descriptors are never consulted by code we execute (serialisation is a cut).
	nop := func(in *Interp, fr *frame, fn *ssa.Function, a []Value) Value { return in.zeroResults(fn.Signature) }
	add(modulePath+"/common/types.file_common_types_protobuf_proto_init", nop)
	add(modulePath+"/chain/nom.file_chain_nom_protobuf_proto_init", nop)
	add(modulePath+"/vm/embedded/definition.file_vm_embedded_definition_protobuf_proto_init", nop)
}

// ---- time.Time on whole-second instants without monotonic reading.
// A Time built by time.Unix(sec, 0) has wall == 0 and ext == sec + unixToInternal.  For such values Add/Sub are
// plain integer arithmetic on ext; anything else falls back to interpreting the time package.

func timeParts(v Value) (wall, ext *Term, st Struct, ok bool) {
	st, ok = v.(Struct)
	if !ok || len(st) != 3 {
		return nil, nil, nil, false
	}
	wall, ok1 := st[0].(*Term)
	ext, ok2 := st[1].(*Term)
	if !ok1 || !ok2 || !wall.IsConst() || wall.val.Sign() != 0 {
		return nil, nil, nil, false
	}
	return wall, ext, st, true
}

func init() {
	intrinsics["(time.Time).Add"] = func(in *Interp, fr *frame, fn *ssa.Function, a []Value) Value {
		_, ext, st, ok := timeParts(a[0])
		d, isT := a[1].(*Term)
		if ok && isT {
			tt := in.tt
			e9 := tt.BVI(1000000000, 64)
			whole := tt.Eq(tt.BvSrem(d, e9), tt.BVI(0, 64))
			if whole.IsTrue() || (!whole.IsFalse() && in.truth(whole)) {
				sec := tt.BvSdiv(d, e9)
				sum := tt.BvAdd(ext, sec)
				// time.Time.addSec saturates on overflow; stay within the non-overflowing region or fall back
				noOv := tt.Eq(tt.BvSlt(ext, sum), tt.BvSlt(tt.BVI(0, 64), sec))
				noOv = tt.Or(noOv, tt.Eq(sec, tt.BVI(0, 64)))
				if noOv.IsTrue() || in.truth(noOv) {
					return Struct{st[0], sum, st[2]}
				}
			}
		}
		return in.callBody(fr, fn, a)
	}
	intrinsics["(time.Time).Sub"] = func(in *Interp, fr *frame, fn *ssa.Function, a []Value) Value {
		_, e1, _, ok1 := timeParts(a[0])
		_, e2, _, ok2 := timeParts(a[1])
		if ok1 && ok2 {
			tt := in.tt
			diff := tt.BvSub(e1, e2)
			lim := int64(9000000000) // < 2^63 / 1e9
			small := tt.And(tt.BvSlt(tt.BVI(-lim, 64), diff), tt.BvSlt(diff, tt.BVI(lim, 64)))
			// the subtraction itself must not wrap: both ext values are in a sane range
			sane := tt.And(tt.BvSlt(tt.BVI(-(1<<61), 64), e1), tt.BvSlt(e1, tt.BVI(1<<61, 64)))
			sane = tt.And(sane, tt.And(tt.BvSlt(tt.BVI(-(1<<61), 64), e2), tt.BvSlt(e2, tt.BVI(1<<61, 64))))
			c := tt.And(small, sane)
			if c.IsTrue() || (!c.IsFalse() && in.truth(c)) {
				return tt.BvMul(diff, tt.BVI(1000000000, 64))
			}
		}
		return in.callBody(fr, fn, a)
	}
}

// callBody interprets fn's SSA body, bypassing its intrinsic.
func (in *Interp) callBody(caller *frame, fn *ssa.Function, args []Value) Value {
	saved, had := in.intrCache[fn]
	in.intrCache[fn] = nil
	defer func() {
		if had {
			in.intrCache[fn] = saved
		} else {
			delete(in.intrCache, fn)
		}
	}()
	return in.callSSA(caller, 0, fn, args, nil)
}

// ---- cryptography as uninterpreted functions
func init() {
	intrinsics["golang.org/x/crypto/sha3.Sum256"] = func(in *Interp, fr *frame, fn *ssa.Function, a []Value) Value {
		return in.hashUF("sha3", sliceOf(in, a[0]), 32)
	}
	intrinsics["crypto/sha256.Sum256"] = func(in *Interp, fr *frame, fn *ssa.Function, a []Value) Value {
		return in.hashUF("sha256", sliceOf(in, a[0]), 32)
	}
	intrinsics["crypto/ed25519.Verify"] = func(in *Interp, fr *frame, fn *ssa.Function, a []Value) Value {
		pk, msg, sig := sliceOf(in, a[0]), sliceOf(in, a[1]), sliceOf(in, a[2])
		if len(pk) != 32 {
			panic(targetPanic{in.makeError("ed25519: bad public key length")})
		}
		if len(sig) != 64 {
			return in.tt.False
		}
		cat := func(bs SliceV) *Term {
			if len(bs) == 0 {
				return in.tt.BVU(0, 8)
			}
			acc := bs[0].(*Term)
			for _, b := range bs[1:] {
				acc = in.tt.Concat(acc, b.(*Term))
			}
			return acc
		}
		return in.tt.App(fmt.Sprintf("ed25519_verify_%d", len(msg)), BoolSort, cat(pk), cat(msg), cat(sig))
	}
}

// common.BigIntToBytes: 32-byte big-endian form.  For 0 <= x < 2^256 (one decision) the bytes are taken from
// int2bv directly instead of forking over the minimal byte length in big.Int.Bytes().
func init() {
	intrinsics[modulePath+"/common.BigIntToBytes"] = func(in *Interp, fr *frame, fn *ssa.Function, a []Value) Value {
		p, ok := a[0].(*Value)
		if ok && p != nil {
			if b, isB := (*p).(BigV); isB && !b.T.IsConst() {
				tt := in.tt
				inRange := tt.And(tt.ILe(tt.IntI(0), b.T), tt.ILt(b.T, tt.IntConst(pow2(256))))
				if in.truth(inRange) {
					return in.natToBytes(b.T, 32)
				}
			}
		}
		return in.callBody(fr, fn, a)
	}
}

// ---- regexp: compiled natively from the (concrete) pattern; matching a symbolic string yields an arbitrary verdict
func init() {
	intrinsics["regexp.MustCompile"] = func(in *Interp, fr *frame, fn *ssa.Function, a []Value) Value {
		pat, ok := in.goString(a[0])
		if !ok {
			in.unsupported("regexp.MustCompile on symbolic pattern")
		}
		re, err := regexp.Compile(pat)
		if err != nil {
			panic(targetPanic{in.makeError("regexp: " + err.Error())})
		}
		cell := new(Value)
		*cell = &Opaque{Kind: "regexp", Data: re}
		return cell
	}
	match := func(in *Interp, fr *frame, fn *ssa.Function, a []Value) Value {
		p, _ := a[0].(*Value)
		if p == nil {
			in.unsupported("regexp: nil receiver")
		}
		o, ok := (*p).(*Opaque)
		if !ok || o.Kind != "regexp" {
			in.unsupported("regexp value not built by the engine")
		}
		re := o.Data.(*regexp.Regexp)
		var s string
		var conc bool
		switch v := a[1].(type) {
		case SliceV:
			ss := &SymStr{B: make([]*Term, len(v))}
			for i, b := range v {
				ss.B[i] = b.(*Term)
			}
			s, conc = in.goString(normStr(ss))
		default:
			s, conc = in.goString(a[1])
		}
		if conc {
			return in.tt.Bool(re.MatchString(s))
		}
		// Go's RE2 is linear and cannot panic; on symbolic input the verdict is arbitrary
		return in.nondetVar("regexp match", BoolSort)
	}
	intrinsics["regexp.MatchString"] = func(in *Interp, fr *frame, fn *ssa.Function, a []Value) Value {
		pat, ok := in.goString(a[0])
		if !ok {
			in.unsupported("regexp.MatchString on symbolic pattern")
		}
		re, err := regexp.Compile(pat)
		if err != nil {
			return Tuple{in.tt.False, in.makeError("regexp: " + err.Error())}
		}
		if s, conc := in.goString(a[1]); conc {
			return Tuple{in.tt.Bool(re.MatchString(s)), Iface{}}
		}
		return Tuple{in.nondetVar("regexp match", BoolSort), Iface{}}
	}
	intrinsics["(*regexp.Regexp).MatchString"] = match
	intrinsics["(*regexp.Regexp).Match"] = match
}

// sync.Pool: Get builds a new object with New (pooling is an optimisation), Put drops it
func init() {
	intrinsics["(*sync.Pool).Get"] = func(in *Interp, fr *frame, fn *ssa.Function, a []Value) Value {
		p := a[0].(*Value)
		st := (*p).(Struct)
		newFn := st[len(st)-1]
		if isNilFunc(newFn) {
			return Iface{}
		}
		return in.call(fr, 0, newFn, nil)
	}
	intrinsics["(*sync.Pool).Put"] = func(in *Interp, fr *frame, fn *ssa.Function, a []Value) Value { return nil }
}
