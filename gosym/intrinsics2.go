package main

// Intrinsics for assembly-backed std helpers (internal/bytealg, unsafe string
// builders) and code that cannot run during lazy package init (protobuf
// registration).

import (
	"strings"

	"golang.org/x/tools/go/ssa"
)

// bytesOf returns the byte terms of a []byte or string value.
func (in *Interp) bytesOf(v Value) []*Term {
	switch v := v.(type) {
	case SliceV:
		r := make([]*Term, len(v))
		for i, b := range v {
			r[i] = b.(*Term)
		}
		return r
	case string, *SymStr:
		return in.toSymStr(v).B
	case nil:
		return nil
	}
	in.unsupported("bytesOf %T", v)
	return nil
}

func (in *Interp) truth(c *Term) bool {
	if c.IsConst() {
		return c.IsTrue()
	}
	return in.branch(c)
}

func (in *Interp) indexByte(b []*Term, c *Term) Value {
	for i, x := range b {
		if in.truth(in.tt.Eq(x, c)) {
			return in.tt.BVI(int64(i), 64)
		}
	}
	return in.tt.BVI(-1, 64)
}

func (in *Interp) indexSeq(a, b []*Term) Value {
	if len(b) == 0 {
		return in.tt.BVI(0, 64)
	}
	for i := 0; i+len(b) <= len(a); i++ {
		eq := in.tt.True
		for j := range b {
			eq = in.tt.And(eq, in.tt.Eq(a[i+j], b[j]))
		}
		if in.truth(eq) {
			return in.tt.BVI(int64(i), 64)
		}
	}
	return in.tt.BVI(-1, 64)
}

func init() {
	add := func(name string, f intrinsicFn) { intrinsics[name] = f }
	add("internal/bytealg.IndexByte", func(in *Interp, fr *frame, fn *ssa.Function, a []Value) Value {
		return in.indexByte(in.bytesOf(a[0]), asTerm(in, a[1]))
	})
	add("internal/bytealg.IndexByteString", func(in *Interp, fr *frame, fn *ssa.Function, a []Value) Value {
		return in.indexByte(in.bytesOf(a[0]), asTerm(in, a[1]))
	})
	add("internal/bytealg.LastIndexByteString", func(in *Interp, fr *frame, fn *ssa.Function, a []Value) Value {
		b := in.bytesOf(a[0])
		c := asTerm(in, a[1])
		for i := len(b) - 1; i >= 0; i-- {
			if in.truth(in.tt.Eq(b[i], c)) {
				return in.tt.BVI(int64(i), 64)
			}
		}
		return in.tt.BVI(-1, 64)
	})
	count := func(in *Interp, fr *frame, fn *ssa.Function, a []Value) Value {
		b := in.bytesOf(a[0])
		c := asTerm(in, a[1])
		n := in.tt.BVI(0, 64)
		for _, x := range b {
			n = in.tt.BvAdd(n, in.tt.Ite(in.tt.Eq(x, c), in.tt.BVI(1, 64), in.tt.BVI(0, 64)))
		}
		return n
	}
	add("internal/bytealg.Count", count)
	add("internal/bytealg.CountString", count)
	add("internal/bytealg.Index", func(in *Interp, fr *frame, fn *ssa.Function, a []Value) Value {
		return in.indexSeq(in.bytesOf(a[0]), in.bytesOf(a[1]))
	})
	add("internal/bytealg.IndexString", func(in *Interp, fr *frame, fn *ssa.Function, a []Value) Value {
		return in.indexSeq(in.bytesOf(a[0]), in.bytesOf(a[1]))
	})
	add("internal/bytealg.Compare", func(in *Interp, fr *frame, fn *ssa.Function, a []Value) Value {
		sx, sy := &SymStr{B: in.bytesOf(a[0])}, &SymStr{B: in.bytesOf(a[1])}
		tt := in.tt
		return tt.Ite(in.symStrLess(sx, sy), tt.BVI(-1, 64), tt.Ite(in.symStrEq(sx, sy), tt.BVI(0, 64), tt.BVI(1, 64)))
	})
	add("internal/bytealg.MakeNoZero", func(in *Interp, fr *frame, fn *ssa.Function, a []Value) Value {
		n := in.concretizeInt(a[0], "MakeNoZero", "")
		r := make(SliceV, n)
		z := in.tt.BVU(0, 8)
		for i := range r {
			r[i] = z
		}
		return r
	})
	add("internal/stringslite.Index", func(in *Interp, fr *frame, fn *ssa.Function, a []Value) Value {
		return in.indexSeq(in.bytesOf(a[0]), in.bytesOf(a[1]))
	})
	add("strings.Index", func(in *Interp, fr *frame, fn *ssa.Function, a []Value) Value {
		return in.indexSeq(in.bytesOf(a[0]), in.bytesOf(a[1]))
	})
	add("bytes.Index", func(in *Interp, fr *frame, fn *ssa.Function, a []Value) Value {
		return in.indexSeq(in.bytesOf(a[0]), in.bytesOf(a[1]))
	})
	// strings.Builder: the unsafe parts only
	add("(*strings.Builder).copyCheck", func(in *Interp, fr *frame, fn *ssa.Function, a []Value) Value { return nil })
	add("(*strings.Builder).String", func(in *Interp, fr *frame, fn *ssa.Function, a []Value) Value {
		p := a[0].(*Value)
		st := (*p).(Struct)
		buf, _ := st[1].(SliceV)
		s := &SymStr{B: make([]*Term, len(buf))}
		for i, b := range buf {
			s.B[i] = b.(*Term)
		}
		return normStr(s)
	})
	add("strings.Clone", func(in *Interp, fr *frame, fn *ssa.Function, a []Value) Value { return a[0] })
	add("strings.ToLower", func(in *Interp, fr *frame, fn *ssa.Function, a []Value) Value {
		if s, ok := in.goString(a[0]); ok {
			return strings.ToLower(s)
		}
		in.unsupported("strings.ToLower on symbolic string")
		return nil
	})
	add("strings.ToUpper", func(in *Interp, fr *frame, fn *ssa.Function, a []Value) Value {
		if s, ok := in.goString(a[0]); ok {
			return strings.ToUpper(s)
		}
		in.unsupported("strings.ToUpper on symbolic string")
		return nil
	})
	// protobuf registration cannot run under the interpreter; generated
	// descriptors are never consulted by code we execute (serialisation is a cut).
	nop := func(in *Interp, fr *frame, fn *ssa.Function, a []Value) Value { return in.zeroResults(fn.Signature) }
	add(modulePath+"/common/types.file_common_types_protobuf_proto_init", nop)
	add(modulePath+"/chain/nom.file_chain_nom_protobuf_proto_init", nop)
	add(modulePath+"/vm/embedded/definition.file_vm_embedded_definition_protobuf_proto_init", nop)
}
