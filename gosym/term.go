package main

// Terms: hash-consed SMT expressions with constant folding.  Three sorts are
// used: Bool, (_ BitVec w) for Go machine integers, and Int for math/big.

import (
	"fmt"
	"math/big"
	"strings"
)

type SortKind uint8

const (
	SBool SortKind = iota
	SBV
	SInt
)

type Sort struct {
	K SortKind
	W int
}

var BoolSort = Sort{SBool, 0}
var IntSort = Sort{SInt, 0}

func BV(w int) Sort { return Sort{SBV, w} }

func (s Sort) String() string {
	switch s.K {
	case SBool:
		return "Bool"
	case SInt:
		return "Int"
	}
	return fmt.Sprintf("(_ BitVec %d)", s.W)
}

type Op uint8

const (
	OConst Op = iota
	OVar
	ONot
	OAnd
	OOr
	OEq
	OIte
	// bit-vector
	OBvAdd
	OBvSub
	OBvMul
	OBvUdiv
	OBvSdiv
	OBvUrem
	OBvSrem
	OBvAnd
	OBvOr
	OBvXor
	OBvShl
	OBvLshr
	OBvAshr
	OBvNot
	OBvNeg
	OBvUlt
	OBvUle
	OBvSlt
	OBvSle
	OZext
	OSext
	OExtract
	OConcat
	// Int
	OIAdd
	OISub
	OIMul
	OIDiv // SMT-LIB div (Euclidean-like: floor for positive divisor)
	OIMod // SMT-LIB mod (always >=0)
	OIAbs
	OINeg
	OILt
	OILe
	OBv2Nat
	OInt2Bv
	OApp // uninterpreted function application
)

var opNames = map[Op]string{
	ONot: "not", OAnd: "and", OOr: "or", OEq: "=", OIte: "ite",
	OBvAdd: "bvadd", OBvSub: "bvsub", OBvMul: "bvmul", OBvUdiv: "bvudiv", OBvSdiv: "bvsdiv",
	OBvUrem: "bvurem", OBvSrem: "bvsrem", OBvAnd: "bvand", OBvOr: "bvor", OBvXor: "bvxor",
	OBvShl: "bvshl", OBvLshr: "bvlshr", OBvAshr: "bvashr", OBvNot: "bvnot", OBvNeg: "bvneg",
	OBvUlt: "bvult", OBvUle: "bvule", OBvSlt: "bvslt", OBvSle: "bvsle", OConcat: "concat",
	OIAdd: "+", OISub: "-", OIMul: "*", OIDiv: "div", OIMod: "mod", OIAbs: "abs", OINeg: "-",
	OILt: "<", OILe: "<=", OBv2Nat: "bv2nat",
}

type Term struct {
	id     int
	op     Op
	sort   Sort
	args   []*Term
	val    *big.Int // OConst: value (BV: unsigned normalised; Bool: 0/1)
	name   string   // OVar / OApp
	p1     int      // extract hi / ext amount / int2bv width
	p2     int      // extract lo
	hasInt bool     // some subterm has sort Int
	hasMix bool     // some subterm converts between Int and BitVec (bv2nat / int2bv)
}

// UF describes an uninterpreted function symbol.
type UF struct {
	Name string
	Args []Sort
	Ret  Sort
}

// TermTable owns all terms of one interpreter instance.
type TermTable struct {
	byKey  map[string]*Term
	all    []*Term
	vars   []*Term // in creation order
	varIdx map[string]*Term
	ufs    map[string]*UF
	ufList []*UF
	True   *Term
	False  *Term
}

func NewTermTable() *TermTable {
	tt := &TermTable{byKey: map[string]*Term{}, varIdx: map[string]*Term{}, ufs: map[string]*UF{}}
	tt.False = tt.mkConst(BoolSort, big.NewInt(0))
	tt.True = tt.mkConst(BoolSort, big.NewInt(1))
	return tt
}

func (tt *TermTable) intern(t *Term) *Term {
	var sb strings.Builder
	fmt.Fprintf(&sb, "%d|%d.%d|%d.%d|%s|", t.op, t.sort.K, t.sort.W, t.p1, t.p2, t.name)
	if t.val != nil {
		sb.WriteString(t.val.String())
	}
	for _, a := range t.args {
		fmt.Fprintf(&sb, ",%d", a.id)
	}
	k := sb.String()
	if e, ok := tt.byKey[k]; ok {
		return e
	}
	t.id = len(tt.all)
	t.hasInt = t.sort.K == SInt
	t.hasMix = t.op == OBv2Nat || t.op == OInt2Bv
	for _, a := range t.args {
		if a.hasInt {
			t.hasInt = true
		}
		if a.hasMix {
			t.hasMix = true
		}
	}
	tt.all = append(tt.all, t)
	tt.byKey[k] = t
	return t
}

func (tt *TermTable) mkConst(s Sort, v *big.Int) *Term {
	return tt.intern(&Term{op: OConst, sort: s, val: v})
}

func (t *Term) IsConst() bool { return t.op == OConst }
func (t *Term) IsTrue() bool  { return t.op == OConst && t.sort.K == SBool && t.val.Sign() != 0 }
func (t *Term) IsFalse() bool { return t.op == OConst && t.sort.K == SBool && t.val.Sign() == 0 }

var bigOne = big.NewInt(1)

func mask(w int) *big.Int {
	m := new(big.Int).Lsh(bigOne, uint(w))
	return m.Sub(m, bigOne)
}

func normBV(v *big.Int, w int) *big.Int {
	r := new(big.Int).And(v, mask(w)) // big.Int And on negative numbers uses two's complement semantics
	return r
}

func toSigned(v *big.Int, w int) *big.Int {
	if v.Bit(w-1) == 1 {
		return new(big.Int).Sub(v, new(big.Int).Lsh(bigOne, uint(w)))
	}
	return new(big.Int).Set(v)
}

func (tt *TermTable) Bool(b bool) *Term {
	if b {
		return tt.True
	}
	return tt.False
}

func (tt *TermTable) BVConst(v *big.Int, w int) *Term { return tt.mkConst(BV(w), normBV(v, w)) }
func (tt *TermTable) BVU(v uint64, w int) *Term {
	return tt.BVConst(new(big.Int).SetUint64(v), w)
}
func (tt *TermTable) BVI(v int64, w int) *Term { return tt.BVConst(big.NewInt(v), w) }
func (tt *TermTable) IntConst(v *big.Int) *Term {
	return tt.mkConst(IntSort, new(big.Int).Set(v))
}
func (tt *TermTable) IntI(v int64) *Term { return tt.IntConst(big.NewInt(v)) }

// Var returns the variable with the given name, creating it on first use.
func (tt *TermTable) Var(name string, s Sort) *Term {
	if v, ok := tt.varIdx[name]; ok {
		if v.sort != s {
			panic(fmt.Sprintf("variable %s redeclared with a different sort", name))
		}
		return v
	}
	v := tt.intern(&Term{op: OVar, sort: s, name: name})
	tt.varIdx[name] = v
	tt.vars = append(tt.vars, v)
	return v
}

func (tt *TermTable) App(name string, ret Sort, args ...*Term) *Term {
	uf, ok := tt.ufs[name]
	if !ok {
		uf = &UF{Name: name, Ret: ret}
		for _, a := range args {
			uf.Args = append(uf.Args, a.sort)
		}
		tt.ufs[name] = uf
		tt.ufList = append(tt.ufList, uf)
	} else {
		if len(uf.Args) != len(args) || uf.Ret != ret {
			panic("UF " + name + " used with different signature")
		}
		for i, a := range args {
			if uf.Args[i] != a.sort {
				panic("UF " + name + " used with different argument sorts")
			}
		}
	}
	return tt.intern(&Term{op: OApp, sort: ret, name: name, args: args})
}

// ---------------------------------------------------------------- booleans

func (tt *TermTable) Not(a *Term) *Term {
	if a.IsConst() {
		return tt.Bool(a.val.Sign() == 0)
	}
	if a.op == ONot {
		return a.args[0]
	}
	return tt.intern(&Term{op: ONot, sort: BoolSort, args: []*Term{a}})
}

func (tt *TermTable) And(a, b *Term) *Term {
	if a.IsFalse() || b.IsFalse() {
		return tt.False
	}
	if a.IsTrue() {
		return b
	}
	if b.IsTrue() {
		return a
	}
	if a == b {
		return a
	}
	return tt.intern(&Term{op: OAnd, sort: BoolSort, args: []*Term{a, b}})
}

func (tt *TermTable) Or(a, b *Term) *Term {
	if a.IsTrue() || b.IsTrue() {
		return tt.True
	}
	if a.IsFalse() {
		return b
	}
	if b.IsFalse() {
		return a
	}
	if a == b {
		return a
	}
	return tt.intern(&Term{op: OOr, sort: BoolSort, args: []*Term{a, b}})
}

func (tt *TermTable) Implies(a, b *Term) *Term { return tt.Or(tt.Not(a), b) }

func (tt *TermTable) Eq(a, b *Term) *Term {
	if a.sort != b.sort {
		panic(fmt.Sprintf("Eq: sort mismatch %v vs %v", a.sort, b.sort))
	}
	if a == b {
		return tt.True
	}
	if a.IsConst() && b.IsConst() {
		return tt.Bool(a.val.Cmp(b.val) == 0)
	}
	if a.sort.K == SBool {
		if a.IsTrue() {
			return b
		}
		if b.IsTrue() {
			return a
		}
		if a.IsFalse() {
			return tt.Not(b)
		}
		if b.IsFalse() {
			return tt.Not(a)
		}
	}
	if a.sort.K == SBV {
		// a comparison of a constant with an ite tree whose leaves are constants (big.Int.Cmp / Sign results) is
		// the corresponding combination of the tree's conditions: no bit-vector term is left
		if b.IsConst() && constLeafIte(a, 4) {
			return tt.mapIte(a, func(l *Term) *Term { return tt.Eq(l, b) })
		}
		if a.IsConst() && constLeafIte(b, 4) {
			return tt.mapIte(b, func(l *Term) *Term { return tt.Eq(a, l) })
		}
	}
	if a.id > b.id {
		a, b = b, a
	}
	return tt.intern(&Term{op: OEq, sort: BoolSort, args: []*Term{a, b}})
}

func constLeafIte(t *Term, depth int) bool {
	if t.op != OIte || depth == 0 {
		return false
	}
	for _, br := range t.args[1:] {
		if !br.IsConst() && !constLeafIte(br, depth-1) {
			return false
		}
	}
	return true
}

func (tt *TermTable) mapIte(t *Term, f func(*Term) *Term) *Term {
	if t.op != OIte {
		return f(t)
	}
	return tt.Ite(t.args[0], tt.mapIte(t.args[1], f), tt.mapIte(t.args[2], f))
}

func (tt *TermTable) Ite(c, a, b *Term) *Term {
	if a.sort != b.sort {
		panic(fmt.Sprintf("Ite: sort mismatch %v vs %v", a.sort, b.sort))
	}
	if c.IsTrue() {
		return a
	}
	if c.IsFalse() {
		return b
	}
	if a == b {
		return a
	}
	if a.sort.K == SBool {
		if a.IsTrue() && b.IsFalse() {
			return c
		}
		if a.IsFalse() && b.IsTrue() {
			return tt.Not(c)
		}
		if a.IsTrue() {
			return tt.Or(c, b)
		}
		if a.IsFalse() {
			return tt.And(tt.Not(c), b)
		}
		if b.IsTrue() {
			return tt.Or(tt.Not(c), a)
		}
		if b.IsFalse() {
			return tt.And(c, a)
		}
	}
	return tt.intern(&Term{op: OIte, sort: a.sort, args: []*Term{c, a, b}})
}

// ---------------------------------------------------------------- bit-vectors

func (tt *TermTable) bvBin(op Op, a, b *Term) *Term {
	if a.sort != b.sort || a.sort.K != SBV {
		panic(fmt.Sprintf("bvBin %s: sort mismatch %v vs %v", opNames[op], a.sort, b.sort))
	}
	w := a.sort.W
	if a.IsConst() && b.IsConst() {
		x, y := a.val, b.val
		r := new(big.Int)
		switch op {
		case OBvAdd:
			r.Add(x, y)
		case OBvSub:
			r.Sub(x, y)
		case OBvMul:
			r.Mul(x, y)
		case OBvUdiv:
			if y.Sign() == 0 {
				r = mask(w)
			} else {
				r.Quo(x, y)
			}
		case OBvUrem:
			if y.Sign() == 0 {
				r.Set(x)
			} else {
				r.Rem(x, y)
			}
		case OBvSdiv:
			sx, sy := toSigned(x, w), toSigned(y, w)
			if sy.Sign() == 0 {
				if sx.Sign() < 0 {
					r.SetInt64(1)
				} else {
					r = mask(w)
				}
			} else {
				r.Quo(sx, sy)
			}
		case OBvSrem:
			sx, sy := toSigned(x, w), toSigned(y, w)
			if sy.Sign() == 0 {
				r.Set(sx)
			} else {
				r.Rem(sx, sy)
			}
		case OBvAnd:
			r.And(x, y)
		case OBvOr:
			r.Or(x, y)
		case OBvXor:
			r.Xor(x, y)
		case OBvShl:
			if y.Cmp(big.NewInt(int64(w))) >= 0 {
				r.SetInt64(0)
			} else {
				r.Lsh(x, uint(y.Uint64()))
			}
		case OBvLshr:
			if y.Cmp(big.NewInt(int64(w))) >= 0 {
				r.SetInt64(0)
			} else {
				r.Rsh(x, uint(y.Uint64()))
			}
		case OBvAshr:
			sx := toSigned(x, w)
			if y.Cmp(big.NewInt(int64(w))) >= 0 {
				if sx.Sign() < 0 {
					r.SetInt64(-1)
				} else {
					r.SetInt64(0)
				}
			} else {
				r.Rsh(sx, uint(y.Uint64()))
			}
		default:
			panic("bvBin fold")
		}
		return tt.BVConst(r, w)
	}
	// light algebraic simplifications
	isZero := func(t *Term) bool { return t.IsConst() && t.val.Sign() == 0 }
	isOnes := func(t *Term) bool { return t.IsConst() && t.val.Cmp(mask(w)) == 0 }
	switch op {
	case OBvAdd, OBvOr, OBvXor:
		if isZero(a) {
			return b
		}
		if isZero(b) {
			return a
		}
	case OBvSub, OBvShl, OBvLshr, OBvAshr:
		if isZero(b) {
			return a
		}
	case OBvAnd:
		if isZero(a) || isZero(b) {
			return tt.BVU(0, w)
		}
		if isOnes(a) {
			return b
		}
		if isOnes(b) {
			return a
		}
	case OBvMul:
		if isZero(a) || isZero(b) {
			return tt.BVU(0, w)
		}
		if a.IsConst() && a.val.Cmp(bigOne) == 0 {
			return b
		}
		if b.IsConst() && b.val.Cmp(bigOne) == 0 {
			return a
		}
	}
	switch op {
	case OBvAdd, OBvMul, OBvAnd, OBvOr, OBvXor:
		if a.id > b.id {
			a, b = b, a
		}
	}
	return tt.intern(&Term{op: op, sort: a.sort, args: []*Term{a, b}})
}

func (tt *TermTable) BvAdd(a, b *Term) *Term  { return tt.bvBin(OBvAdd, a, b) }
func (tt *TermTable) BvSub(a, b *Term) *Term  { return tt.bvBin(OBvSub, a, b) }
func (tt *TermTable) BvMul(a, b *Term) *Term  { return tt.bvBin(OBvMul, a, b) }
func (tt *TermTable) BvUdiv(a, b *Term) *Term { return tt.bvBin(OBvUdiv, a, b) }
func (tt *TermTable) BvSdiv(a, b *Term) *Term { return tt.bvBin(OBvSdiv, a, b) }
func (tt *TermTable) BvUrem(a, b *Term) *Term { return tt.bvBin(OBvUrem, a, b) }
func (tt *TermTable) BvSrem(a, b *Term) *Term { return tt.bvBin(OBvSrem, a, b) }
func (tt *TermTable) BvAnd(a, b *Term) *Term {
	// x & (2^m - 1)  →  zext(extract(x, m-1, 0))
	for k := 0; k < 2; k++ {
		c, x := a, b
		if k == 1 {
			c, x = b, a
		}
		if c.IsConst() && !x.IsConst() && c.val.Sign() > 0 {
			m := c.val.BitLen()
			if m < x.sort.W && new(big.Int).Add(c.val, bigOne).BitLen() == m+1 && c.val.Cmp(mask(m)) == 0 {
				return tt.Zext(tt.Extract(x, m-1, 0), x.sort.W)
			}
		}
	}
	return tt.bvBin(OBvAnd, a, b)
}
func (tt *TermTable) BvOr(a, b *Term) *Term {
	if !a.IsConst() || !b.IsConst() {
		if r := tt.orBySegments(a, b); r != nil {
			return r
		}
	}
	return tt.bvBin(OBvOr, a, b)
}

type segment struct {
	lo int
	t  *Term
}

// segments decomposes t into disjoint placed pieces (all other bits zero), or
// returns ok=false when t is not of a recognised packing shape.
func (tt *TermTable) segments(t *Term, depth int) ([]segment, bool) {
	if depth > 40 {
		return nil, false
	}
	switch t.op {
	case OConst:
		if t.val.Sign() == 0 {
			return nil, true
		}
	case OZext:
		return []segment{{0, t.args[0]}}, true
	case OBvShl:
		if k := t.args[1]; k.IsConst() && k.val.IsInt64() {
			kk := int(k.val.Int64())
			inner, ok := tt.segments(t.args[0], depth+1)
			if !ok {
				return nil, false
			}
			var out []segment
			for _, sg := range inner {
				lo := sg.lo + kk
				if lo >= t.sort.W {
					continue
				}
				if lo+sg.t.sort.W > t.sort.W {
					out = append(out, segment{lo, tt.Extract(sg.t, t.sort.W-lo-1, 0)})
				} else {
					out = append(out, segment{lo, sg.t})
				}
			}
			return out, true
		}
	case OBvOr:
		a, ok1 := tt.segments(t.args[0], depth+1)
		b, ok2 := tt.segments(t.args[1], depth+1)
		if ok1 && ok2 {
			if m, ok := mergeSegments(a, b); ok {
				return m, true
			}
		}
		return nil, false
	case OConcat:
		var out []segment
		lo := 0
		cur := t
		// flatten right-nested and left-nested concats
		var parts []*Term
		var flat func(x *Term)
		flat = func(x *Term) {
			if x.op == OConcat {
				flat(x.args[0])
				flat(x.args[1])
			} else {
				parts = append(parts, x)
			}
		}
		flat(cur)
		for i := len(parts) - 1; i >= 0; i-- {
			p := parts[i]
			if !(p.IsConst() && p.val.Sign() == 0) {
				out = append(out, segment{lo, p})
			}
			lo += p.sort.W
		}
		return out, true
	}
	return nil, false
}

func mergeSegments(a, b []segment) ([]segment, bool) {
	out := append(append([]segment{}, a...), b...)
	for i := 1; i < len(out); i++ {
		for j := i; j > 0 && out[j].lo < out[j-1].lo; j-- {
			out[j], out[j-1] = out[j-1], out[j]
		}
	}
	for i := 1; i < len(out); i++ {
		if out[i-1].lo+out[i-1].t.sort.W > out[i].lo {
			return nil, false
		}
	}
	return out, true
}

func (tt *TermTable) orBySegments(a, b *Term) *Term {
	if a.sort != b.sort || a.sort.K != SBV {
		return nil
	}
	sa, ok := tt.segments(a, 0)
	if !ok {
		return nil
	}
	sb, ok := tt.segments(b, 0)
	if !ok {
		return nil
	}
	m, ok := mergeSegments(sa, sb)
	if !ok {
		return nil
	}
	return tt.fromSegments(m, a.sort.W)
}

func (tt *TermTable) fromSegments(m []segment, w int) *Term {
	var acc *Term
	pos := 0
	put := func(t *Term) {
		if acc == nil {
			acc = t
		} else {
			acc = tt.Concat(t, acc)
		}
		pos += t.sort.W
	}
	for _, sg := range m {
		if sg.lo > pos {
			put(tt.BVU(0, sg.lo-pos))
		}
		put(sg.t)
	}
	if pos < w {
		put(tt.BVU(0, w-pos))
	}
	if acc == nil {
		return tt.BVU(0, w)
	}
	return acc
}
func (tt *TermTable) BvXor(a, b *Term) *Term  { return tt.bvBin(OBvXor, a, b) }
func (tt *TermTable) BvShl(a, b *Term) *Term  { return tt.bvBin(OBvShl, a, b) }
func (tt *TermTable) BvLshr(a, b *Term) *Term { return tt.bvBin(OBvLshr, a, b) }
func (tt *TermTable) BvAshr(a, b *Term) *Term { return tt.bvBin(OBvAshr, a, b) }

func (tt *TermTable) BvNot(a *Term) *Term {
	if a.IsConst() {
		return tt.BVConst(new(big.Int).Xor(a.val, mask(a.sort.W)), a.sort.W)
	}
	return tt.intern(&Term{op: OBvNot, sort: a.sort, args: []*Term{a}})
}

func (tt *TermTable) BvNeg(a *Term) *Term {
	if a.IsConst() {
		return tt.BVConst(new(big.Int).Neg(a.val), a.sort.W)
	}
	return tt.intern(&Term{op: OBvNeg, sort: a.sort, args: []*Term{a}})
}

func (tt *TermTable) bvCmp(op Op, a, b *Term) *Term {
	if a.sort != b.sort || a.sort.K != SBV {
		panic(fmt.Sprintf("bvCmp: sort mismatch %v vs %v", a.sort, b.sort))
	}
	w := a.sort.W
	if a.IsConst() && b.IsConst() {
		var c int
		if op == OBvUlt || op == OBvUle {
			c = a.val.Cmp(b.val)
		} else {
			c = toSigned(a.val, w).Cmp(toSigned(b.val, w))
		}
		if op == OBvUlt || op == OBvSlt {
			return tt.Bool(c < 0)
		}
		return tt.Bool(c <= 0)
	}
	if a == b {
		return tt.Bool(op == OBvUle || op == OBvSle)
	}
	if b.IsConst() && constLeafIte(a, 4) {
		return tt.mapIte(a, func(l *Term) *Term { return tt.bvCmp(op, l, b) })
	}
	if a.IsConst() && constLeafIte(b, 4) {
		return tt.mapIte(b, func(l *Term) *Term { return tt.bvCmp(op, a, l) })
	}
	return tt.intern(&Term{op: op, sort: BoolSort, args: []*Term{a, b}})
}

func (tt *TermTable) BvUlt(a, b *Term) *Term { return tt.bvCmp(OBvUlt, a, b) }
func (tt *TermTable) BvUle(a, b *Term) *Term { return tt.bvCmp(OBvUle, a, b) }
func (tt *TermTable) BvSlt(a, b *Term) *Term { return tt.bvCmp(OBvSlt, a, b) }
func (tt *TermTable) BvSle(a, b *Term) *Term { return tt.bvCmp(OBvSle, a, b) }

func (tt *TermTable) Zext(a *Term, w int) *Term {
	if a.sort.W == w {
		return a
	}
	if a.sort.W > w {
		panic("Zext: narrowing")
	}
	if a.IsConst() {
		return tt.BVConst(a.val, w)
	}
	return tt.intern(&Term{op: OZext, sort: BV(w), args: []*Term{a}, p1: w - a.sort.W})
}

func (tt *TermTable) Sext(a *Term, w int) *Term {
	if a.sort.W == w {
		return a
	}
	if a.sort.W > w {
		panic("Sext: narrowing")
	}
	if a.IsConst() {
		return tt.BVConst(toSigned(a.val, a.sort.W), w)
	}
	return tt.intern(&Term{op: OSext, sort: BV(w), args: []*Term{a}, p1: w - a.sort.W})
}

func (tt *TermTable) Extract(a *Term, hi, lo int) *Term {
	if lo == 0 && hi == a.sort.W-1 {
		return a
	}
	if hi < lo || hi >= a.sort.W {
		panic("Extract: bad range")
	}
	w := hi - lo + 1
	if a.IsConst() {
		return tt.BVConst(new(big.Int).Rsh(a.val, uint(lo)), w)
	}
	switch a.op {
	case OExtract:
		return tt.Extract(a.args[0], a.p2+hi, a.p2+lo)
	case OConcat:
		lw := a.args[1].sort.W
		if hi < lw {
			return tt.Extract(a.args[1], hi, lo)
		}
		if lo >= lw {
			return tt.Extract(a.args[0], hi-lw, lo-lw)
		}
	case OBvLshr:
		if k := a.args[1]; k.IsConst() && k.val.IsInt64() {
			kk := int(k.val.Int64())
			if hi+kk <= a.sort.W-1 {
				return tt.Extract(a.args[0], hi+kk, lo+kk)
			}
			if lo+kk >= a.sort.W {
				return tt.BVU(0, w)
			}
		}
	case OBvShl:
		if k := a.args[1]; k.IsConst() && k.val.IsInt64() {
			kk := int(k.val.Int64())
			if lo >= kk {
				return tt.Extract(a.args[0], hi-kk, lo-kk)
			}
			if hi < kk {
				return tt.BVU(0, w)
			}
		}
	case OZext:
		iw := a.args[0].sort.W
		if hi < iw {
			return tt.Extract(a.args[0], hi, lo)
		}
		if lo >= iw {
			return tt.BVU(0, w)
		}
		if lo == 0 {
			return tt.Zext(a.args[0], w)
		}
	case OSext:
		iw := a.args[0].sort.W
		if hi < iw {
			return tt.Extract(a.args[0], hi, lo)
		}
	}
	return tt.intern(&Term{op: OExtract, sort: BV(w), args: []*Term{a}, p1: hi, p2: lo})
}

func (tt *TermTable) Concat(hi, lo *Term) *Term {
	if hi.IsConst() && lo.IsConst() {
		v := new(big.Int).Lsh(hi.val, uint(lo.sort.W))
		v.Or(v, lo.val)
		return tt.BVConst(v, hi.sort.W+lo.sort.W)
	}
	// adjacent extracts of the same term merge
	if hi.op == OExtract && lo.op == OExtract && hi.args[0] == lo.args[0] && hi.p2 == lo.p1+1 {
		return tt.Extract(hi.args[0], hi.p1, lo.p2)
	}
	return tt.intern(&Term{op: OConcat, sort: BV(hi.sort.W + lo.sort.W), args: []*Term{hi, lo}})
}

// Resize truncates or extends a to width w (signed selects sign extension).
func (tt *TermTable) Resize(a *Term, w int, signed bool) *Term {
	switch {
	case a.sort.W == w:
		return a
	case a.sort.W > w:
		return tt.Extract(a, w-1, 0)
	case signed:
		return tt.Sext(a, w)
	}
	return tt.Zext(a, w)
}

// ---------------------------------------------------------------- Int

func (tt *TermTable) intBin(op Op, a, b *Term) *Term {
	if a.sort.K != SInt || b.sort.K != SInt {
		panic("intBin: not Int")
	}
	if a.IsConst() && b.IsConst() {
		r := new(big.Int)
		switch op {
		case OIAdd:
			r.Add(a.val, b.val)
		case OISub:
			r.Sub(a.val, b.val)
		case OIMul:
			r.Mul(a.val, b.val)
		case OIDiv:
			if b.val.Sign() == 0 {
				goto symbolic
			}
			r.Div(a.val, b.val) // Euclidean, same as SMT-LIB
		case OIMod:
			if b.val.Sign() == 0 {
				goto symbolic
			}
			r.Mod(a.val, b.val)
		}
		return tt.IntConst(r)
	}
	switch op {
	case OIAdd:
		if a.IsConst() && a.val.Sign() == 0 {
			return b
		}
		if b.IsConst() && b.val.Sign() == 0 {
			return a
		}
	case OISub:
		if b.IsConst() && b.val.Sign() == 0 {
			return a
		}
	case OIMul:
		if a.IsConst() && a.val.Cmp(bigOne) == 0 {
			return b
		}
		if b.IsConst() && b.val.Cmp(bigOne) == 0 {
			return a
		}
		if (a.IsConst() && a.val.Sign() == 0) || (b.IsConst() && b.val.Sign() == 0) {
			return tt.IntI(0)
		}
	case OIDiv:
		if b.IsConst() && b.val.Cmp(bigOne) == 0 {
			return a
		}
	}
symbolic:
	return tt.intern(&Term{op: op, sort: IntSort, args: []*Term{a, b}})
}

func (tt *TermTable) IAdd(a, b *Term) *Term { return tt.intBin(OIAdd, a, b) }
func (tt *TermTable) ISub(a, b *Term) *Term { return tt.intBin(OISub, a, b) }
func (tt *TermTable) IMul(a, b *Term) *Term { return tt.intBin(OIMul, a, b) }
func (tt *TermTable) IDiv(a, b *Term) *Term { return tt.intBin(OIDiv, a, b) }
func (tt *TermTable) IMod(a, b *Term) *Term { return tt.intBin(OIMod, a, b) }

func (tt *TermTable) INeg(a *Term) *Term {
	if a.IsConst() {
		return tt.IntConst(new(big.Int).Neg(a.val))
	}
	if a.op == OINeg {
		return a.args[0]
	}
	return tt.intern(&Term{op: OINeg, sort: IntSort, args: []*Term{a}})
}

func (tt *TermTable) IAbs(a *Term) *Term {
	if a.IsConst() {
		return tt.IntConst(new(big.Int).Abs(a.val))
	}
	if nonNeg(a) {
		return a
	}
	return tt.intern(&Term{op: OIAbs, sort: IntSort, args: []*Term{a}})
}

// nonNeg is a cheap syntactic check that an Int term is >= 0.
func nonNeg(t *Term) bool {
	switch t.op {
	case OConst:
		return t.val.Sign() >= 0
	case OBv2Nat, OIAbs, OIMod:
		return true
	case OIAdd, OIMul, OIDiv:
		return nonNeg(t.args[0]) && nonNeg(t.args[1])
	case OIte:
		return nonNeg(t.args[1]) && nonNeg(t.args[2])
	}
	return false
}

func (tt *TermTable) ILt(a, b *Term) *Term {
	if a.IsConst() && b.IsConst() {
		return tt.Bool(a.val.Cmp(b.val) < 0)
	}
	if a == b {
		return tt.False
	}
	if b.IsConst() && b.val.Sign() <= 0 && nonNeg(a) {
		return tt.False
	}
	return tt.intern(&Term{op: OILt, sort: BoolSort, args: []*Term{a, b}})
}

func (tt *TermTable) ILe(a, b *Term) *Term {
	if a.IsConst() && b.IsConst() {
		return tt.Bool(a.val.Cmp(b.val) <= 0)
	}
	if a == b {
		return tt.True
	}
	if a.IsConst() && a.val.Sign() <= 0 && nonNeg(b) {
		return tt.True
	}
	return tt.intern(&Term{op: OILe, sort: BoolSort, args: []*Term{a, b}})
}

// ISign returns -1/0/1 as an Int term is not needed; callers use ILt against 0.

// ITruncDiv / ITruncRem implement Go's big.Int Quo/Rem (truncated towards zero)
// on top of SMT-LIB's div/mod.
func (tt *TermTable) ITruncDiv(a, b *Term) *Term {
	if a.IsConst() && b.IsConst() && b.val.Sign() != 0 {
		return tt.IntConst(new(big.Int).Quo(a.val, b.val))
	}
	zero := tt.IntI(0)
	q := tt.IDiv(tt.IAbs(a), tt.IAbs(b))
	neg := tt.Not(tt.Eq(tt.ILt(a, zero), tt.ILt(b, zero)))
	return tt.Ite(neg, tt.INeg(q), q)
}

func (tt *TermTable) ITruncRem(a, b *Term) *Term {
	if a.IsConst() && b.IsConst() && b.val.Sign() != 0 {
		return tt.IntConst(new(big.Int).Rem(a.val, b.val))
	}
	zero := tt.IntI(0)
	r := tt.IMod(tt.IAbs(a), tt.IAbs(b))
	return tt.Ite(tt.ILt(a, zero), tt.INeg(r), r)
}

func (tt *TermTable) Bv2Nat(a *Term) *Term {
	if a.IsConst() {
		return tt.IntConst(a.val)
	}
	if a.op == OInt2Bv {
		// bv2nat(int2bv_w(x)) = x mod 2^w
		return tt.IMod(a.args[0], tt.IntConst(new(big.Int).Lsh(bigOne, uint(a.sort.W))))
	}
	return tt.intern(&Term{op: OBv2Nat, sort: IntSort, args: []*Term{a}})
}

// Bv2Int interprets a as signed or unsigned.
func (tt *TermTable) Bv2Int(a *Term, signed bool) *Term {
	n := tt.Bv2Nat(a)
	if !signed {
		return n
	}
	w := a.sort.W
	if a.IsConst() {
		return tt.IntConst(toSigned(a.val, w))
	}
	neg := tt.BvSlt(a, tt.BVU(0, w))
	return tt.Ite(neg, tt.ISub(n, tt.IntConst(new(big.Int).Lsh(bigOne, uint(w)))), n)
}

func (tt *TermTable) Int2Bv(a *Term, w int) *Term {
	if a.IsConst() {
		return tt.BVConst(a.val, w)
	}
	if a.op == OBv2Nat {
		return tt.Resize(a.args[0], w, false)
	}
	return tt.intern(&Term{op: OInt2Bv, sort: BV(w), args: []*Term{a}, p1: w})
}

// ---------------------------------------------------------------- printing

func constSMT(t *Term) string {
	switch t.sort.K {
	case SBool:
		if t.val.Sign() != 0 {
			return "true"
		}
		return "false"
	case SInt:
		if t.val.Sign() < 0 {
			return "(- " + new(big.Int).Neg(t.val).String() + ")"
		}
		return t.val.String()
	}
	if t.sort.W%4 == 0 {
		return fmt.Sprintf("#x%0*s", t.sort.W/4, t.val.Text(16))
	}
	return fmt.Sprintf("#b%0*s", t.sort.W, t.val.Text(2))
}

func smtName(name string) string { return "|" + strings.ReplaceAll(name, "|", "!") + "|" }

// ref is how a term is referred to inside another term's body.
func (t *Term) ref() string {
	switch t.op {
	case OConst:
		return constSMT(t)
	case OVar:
		return smtName(t.name)
	}
	return fmt.Sprintf("d!%d", t.id)
}

// body prints the term one level deep, referring to arguments by name.
func (t *Term) body(dialect string) string {
	switch t.op {
	case OConst, OVar:
		return t.ref()
	}
	var sb strings.Builder
	sb.WriteString("(")
	switch t.op {
	case OZext:
		fmt.Fprintf(&sb, "(_ zero_extend %d)", t.p1)
	case OSext:
		fmt.Fprintf(&sb, "(_ sign_extend %d)", t.p1)
	case OExtract:
		fmt.Fprintf(&sb, "(_ extract %d %d)", t.p1, t.p2)
	case OInt2Bv:
		fmt.Fprintf(&sb, "(_ int2bv %d)", t.p1)
	case OApp:
		sb.WriteString(smtName(t.name))
	case OBv2Nat:
		sb.WriteString("bv2nat")
	default:
		sb.WriteString(opNames[t.op])
	}
	for _, a := range t.args {
		sb.WriteString(" ")
		sb.WriteString(a.ref())
	}
	sb.WriteString(")")
	return sb.String()
}

// String renders a term fully inlined (for diagnostics; may be large).
func (t *Term) String() string {
	return t.render(0)
}

func (t *Term) render(depth int) string {
	switch t.op {
	case OConst:
		if t.sort.K == SBV {
			return "0x" + t.val.Text(16)
		}
		return constSMT(t)
	case OVar:
		return t.name
	}
	if depth > 6 {
		return "…"
	}
	var sb strings.Builder
	sb.WriteString("(")
	switch t.op {
	case OZext:
		fmt.Fprintf(&sb, "zext%d", t.p1)
	case OSext:
		fmt.Fprintf(&sb, "sext%d", t.p1)
	case OExtract:
		fmt.Fprintf(&sb, "extract[%d:%d]", t.p1, t.p2)
	case OInt2Bv:
		fmt.Fprintf(&sb, "int2bv%d", t.p1)
	case OApp:
		sb.WriteString(t.name)
	default:
		sb.WriteString(opNames[t.op])
	}
	for _, a := range t.args {
		sb.WriteString(" ")
		sb.WriteString(a.render(depth + 1))
	}
	sb.WriteString(")")
	return sb.String()
}

// Eval evaluates t under a full assignment of variables (used to pin Nondet
// values for translator validation).  UF applications are not supported.
func (tt *TermTable) Subst(t *Term, env map[*Term]*Term, cache map[*Term]*Term) *Term {
	if r, ok := cache[t]; ok {
		return r
	}
	var r *Term
	switch t.op {
	case OConst:
		r = t
	case OVar:
		if v, ok := env[t]; ok {
			r = v
		} else {
			r = t
		}
	default:
		args := make([]*Term, len(t.args))
		changed := false
		for i, a := range t.args {
			args[i] = tt.Subst(a, env, cache)
			if args[i] != a {
				changed = true
			}
		}
		if !changed {
			r = t
		} else {
			r = tt.rebuild(t, args)
		}
	}
	cache[t] = r
	return r
}

func (tt *TermTable) rebuild(t *Term, a []*Term) *Term {
	switch t.op {
	case ONot:
		return tt.Not(a[0])
	case OAnd:
		return tt.And(a[0], a[1])
	case OOr:
		return tt.Or(a[0], a[1])
	case OEq:
		return tt.Eq(a[0], a[1])
	case OIte:
		return tt.Ite(a[0], a[1], a[2])
	case OBvAdd, OBvSub, OBvMul, OBvUdiv, OBvSdiv, OBvUrem, OBvSrem, OBvAnd, OBvOr, OBvXor, OBvShl, OBvLshr, OBvAshr:
		return tt.bvBin(t.op, a[0], a[1])
	case OBvNot:
		return tt.BvNot(a[0])
	case OBvNeg:
		return tt.BvNeg(a[0])
	case OBvUlt, OBvUle, OBvSlt, OBvSle:
		return tt.bvCmp(t.op, a[0], a[1])
	case OZext:
		return tt.Zext(a[0], t.sort.W)
	case OSext:
		return tt.Sext(a[0], t.sort.W)
	case OExtract:
		return tt.Extract(a[0], t.p1, t.p2)
	case OConcat:
		return tt.Concat(a[0], a[1])
	case OIAdd, OISub, OIMul, OIDiv, OIMod:
		return tt.intBin(t.op, a[0], a[1])
	case OIAbs:
		return tt.IAbs(a[0])
	case OINeg:
		return tt.INeg(a[0])
	case OILt:
		return tt.ILt(a[0], a[1])
	case OILe:
		return tt.ILe(a[0], a[1])
	case OBv2Nat:
		return tt.Bv2Nat(a[0])
	case OInt2Bv:
		return tt.Int2Bv(a[0], t.p1)
	case OApp:
		return tt.App(t.name, t.sort, a...)
	}
	panic("rebuild: unknown op")
}
