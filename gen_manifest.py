#!/usr/bin/env python3
"""Regenerates MANIFEST.json from specs/*.json (claimed) and not_applicable.json."""
import json, os, glob
V = os.path.dirname(os.path.abspath(__file__))
checks = []
for p in sorted(glob.glob(os.path.join(V, "specs", "C*.json"))):
    s = json.load(open(p))
    pid = s["property"]
    c = {
        "property_id": pid,
        "quick_cmd": "./check %s --tier quick" % pid,
        "thorough_cmd": "./check %s --tier thorough" % pid,
        "evidence_file": "evidence/%s.json" % pid,
        "replay_cmd_template": "./check %s --replay {path}" % pid,
        "engine": "gosym",
        "level_claimed": {"category": s.get("level", "model_checking"),
                          "text": s.get("level_text", "bounded symbolic model checking of the real functions (go/ssa of /repo's working tree -> SMT); every registered obligation is unsat for all values within the stated bounds, sat results are replayed natively before being reported where the harness has no engine-level model (otherwise the counterexample is the solver model, stated in the evidence)"),
                          "design_ref": "DESIGN.md §6 " + pid},
        "level_note": s.get("level_note", "trusted: the SSA->SMT translation (validated per run on concrete vectors where registered), the harness models listed in evidence.assumptions, z3/cvc5"),
        "technique": s.get("technique", "solver-based bounded symbolic execution of go/ssa (z3/cvc5), native replay of counterexamples"),
    }
    checks.append(c)
na = json.load(open(os.path.join(V, "not_applicable.json")))
claimed = {c["property_id"] for c in checks}
na = [n for n in na if n["property_id"] not in claimed]
m = {
    "version": 1,
    "setup_cmd": "./setup.sh",
    "hooks": {"guard": "verif", "enable": "harnesses are injected with go/packages Overlay and `go test -tags verif -overlay` (no source change in /repo)",
              "baseline_off_cmd": "cd /repo && T=$(mktemp -d) && cp go.mod go.sum $T/ && GOFLAGS=-mod=mod GOPROXY=off go test -modfile=$T/go.mod -json -vet=off -count=1 -timeout 25m ./... ; rm -rf $T",
              "source_commits": [], "add_only": True},
    "engines": [{"name": "gosym", "path": "gosym/", "serves_properties": sorted(claimed),
                 "kind_free_text": "own symbolic executor over go/ssa (x/tools v0.29.0): path-wise re-execution, SMT-LIB2 to z3 4.8.12 / z3 5.1.0 / cvc5 1.0 (bit-vector and integer encodings), native replay via go test -overlay"}],
    "checks": checks,
    "not_applicable": na,
    "notes": "exit codes of ./check: 0 holds within bounds, 1 VIOLATION (replayed), 2 broken/inconclusive (never success). Fixes of genuine defects are 'fix:' commits in /repo listed in known_findings.json.",
}
json.dump(m, open(os.path.join(V, "MANIFEST.json"), "w"), indent=1)
print("claimed:", sorted(claimed), "not applicable:", [n["property_id"] for n in na])
