//go:build verif

package protocol

import (
	"github.com/zenon-network/go-zenon/chain"
	"github.com/zenon-network/go-zenon/chain/momentum"
	"github.com/zenon-network/go-zenon/chain/nom"
	"github.com/zenon-network/go-zenon/chain/store"
	"github.com/zenon-network/go-zenon/common/db"
	"github.com/zenon-network/go-zenon/common/types"
	"github.com/zenon-network/go-zenon/p2p"
	"github.com/zenon-network/go-zenon/protocol/downloader"
)

// ---- cut: protobuf (reflection) serialisation of momentums is an opaque token round trip
var c15Registry []*nom.Momentum

func verifModelMomentumSerialize(m *nom.Momentum) ([]byte, error) {
	c15Registry = append(c15Registry, m)
	return []byte{0xAB, byte(len(c15Registry) - 1)}, nil
}
func verifModelDeserializeMomentum(data []byte) (*nom.Momentum, error) {
	if len(data) != 2 || data[0] != 0xAB || int(data[1]) >= len(c15Registry) {
		return nil, ErrResponseFromModel
	}
	c := *c15Registry[data[1]]
	return &c, nil
}

var ErrResponseFromModel = errResp(ErrDecode, "model")

// c15Chain: the real momentum store (chain/momentum) over the real in-memory db, holding heights 1..F
type c15Chain struct {
	chain.Chain
	st store.Momentum
	F  uint64
}

func (c *c15Chain) GetFrontierMomentumStore() store.Momentum { return c.st }
func (c *c15Chain) GetGenesisMomentum() *nom.Momentum        { m, _ := c.st.GetMomentumByHeight(1); return m }

func c15NewChain(F int) *c15Chain {
	c15Registry = nil
	st := momentum.NewStore(nil, db.NewMemDB())
	setter := st.(interface{ SetFrontier(*nom.Momentum) error })
	for h := 1; h <= F; h++ {
		m := &nom.Momentum{Height: uint64(h), Hash: c16Hash(0, uint64(h))}
		if h > 1 {
			m.PreviousHash = c16Hash(0, uint64(h-1))
		}
		verifAssert(setter.SetFrontier(m) == nil, "store momentum")
	}
	return &c15Chain{st: st, F: uint64(F)}
}

// VerifC15LookupsByPeerKeys: lookups keyed by values a remote peer chooses (hash, number, amount) never panic
// and never return more than asked for; unknown hashes give empty results.
func VerifC15LookupsByPeerKeys() {
	F := verifNondetLen("local chain length", 1, 3)
	c := c15NewChain(F)
	cb := chainBridge{chain: c}
	h := c16Hash(verifNondetU8("hash.tag"), verifNondetU64("hash.height"))
	known := h[0] == 0 && verifKnownHeight(h, uint64(F))
	amount := verifNondetU64("amount")
	verifAssume(amount <= 3, "loop bound of this obligation: amount <= 3 (the count arithmetic for amounts up to 512 is VerifC15HandlerLimits)")

	verifAssert(cb.HasBlock(h) == known, "HasBlock answers membership")
	blk := cb.GetBlock(h)
	verifAssert((blk != nil) == known, "GetBlock returns nil for unknown hashes")
	hashes, err := cb.GetBlockHashesFromHash(h, amount)
	verifReach("unknown hash", !known)
	verifReach("known hash", known && amount > 0)
	verifAssert(err == nil, "no error")
	verifAssert(uint64(len(hashes)) <= amount, "never more hashes than requested")
	if !known {
		verifAssert(len(hashes) == 0, "unknown origin hash => empty answer")
	}
	num := verifNondetU64("number")
	m, err := cb.GetBlockByNumber(num)
	verifAssert(err == nil && (m != nil) == (num >= 1 && num <= uint64(F)), "GetBlockByNumber: nil beyond the chain")
}

func verifKnownHeight(h types.Hash, F uint64) bool {
	var v uint64
	for i := 0; i < 8; i++ {
		v = v<<8 | uint64(h[24+i])
	}
	for i := 1; i < 24; i++ {
		if h[i] != 0 {
			return false
		}
	}
	return v >= 1 && v <= F
}

// ---- handler level

type c15RW struct {
	msg   p2p.Msg
	sent  int
	codes []uint64
	count []int
}

func (rw *c15RW) ReadMsg() (p2p.Msg, error) { return rw.msg, nil }
func (rw *c15RW) WriteMsg(m p2p.Msg) error  { return nil }

var c15CurRW *c15RW

// typed havoc for the RLP decoder (library cut): either an error or a fresh value of the destination type
func verifModelMsgDecode(msg p2p.Msg, val interface{}) error {
	if verifNondetBool("rlp decode fails") {
		return ErrResponseFromModel
	}
	switch v := val.(type) {
	case *getBlockHashesData:
		v.Hash = c16Hash(verifNondetU8("req.hash.tag"), verifNondetU64("req.hash.height"))
		v.Amount = verifNondetU64("req.Amount")
	case *getBlockHashesFromNumberData:
		v.Number = verifNondetU64("req.Number")
		v.Amount = verifNondetU64("req.Amount")
	default:
		verifAssert(false, "decode target not modelled")
	}
	return nil
}
func verifModelMsgDiscard(msg p2p.Msg) error { return nil }
func verifModelSend(w p2p.MsgWriter, msgcode uint64, data interface{}) error {
	rw := c15CurRW
	rw.sent++
	rw.codes = append(rw.codes, msgcode)
	n := -1
	switch d := data.(type) {
	case []types.Hash:
		n = len(d)
	case []*nom.DetailedMomentum:
		n = len(d)
	}
	rw.count = append(rw.count, n)
	return nil
}

// c15CountingChain: a chain manager that answers hash requests with exactly min(amount, available) hashes, so that
// the handler's count arithmetic can be checked for the full range without unrolling 512 iterations.
type c15CountingChain struct {
	chainManager
	F         uint64
	askedFrom types.Hash
	asked     []uint64
}

func (c *c15CountingChain) GetBlockByNumber(n uint64) (*nom.Momentum, error) {
	if n < 1 || n > c.F {
		return nil, nil
	}
	return &nom.Momentum{Height: n, Hash: c16Hash(0, n)}, nil
}
func (c *c15CountingChain) CurrentBlock() *nom.Momentum {
	return &nom.Momentum{Height: c.F, Hash: c16Hash(0, c.F)}
}
func (c *c15CountingChain) GetBlockHashesFromHash(hash types.Hash, amount uint64) ([]types.Hash, error) {
	c.asked = append(c.asked, amount)
	c.askedFrom = hash
	return nil, nil
}

// VerifC15HandlerLimits: one iteration of the message loop for the size check, unknown codes and the two
// hash-request messages: no panic, oversized messages refused before decoding, and the amount passed on to the
// chain never exceeds the protocol's MaxHashFetch whatever the peer asked for.
func VerifC15HandlerLimits() {
	cm := &c15CountingChain{F: verifNondetU64("local frontier height")}
	verifAssume(cm.F >= 1 && cm.F < 1<<62, "node has at least genesis")
	pm := &ProtocolManager{chainman: cm}
	rw := &c15RW{}
	c15CurRW = rw
	rw.msg = p2p.Msg{Code: verifNondetU64("msg.Code"), Size: verifNondetU32("msg.Size")}
	verifAssume(rw.msg.Code == StatusMsg || rw.msg.Code == GetBlockHashesMsg || rw.msg.Code == GetBlockHashesFromNumberMsg || rw.msg.Code >= 9,
		"message codes of this obligation: status, the two hash requests, unknown codes")
	p := &peer{rw: rw, id: "peer"}
	err := pm.handleMsg(p)

	if rw.msg.Size > ProtocolMaxMsgSize {
		verifReach("oversized", true)
		verifAssert(err != nil && len(cm.asked) == 0 && rw.sent == 0, "a message above 10 MiB is refused before it is decoded")
		return
	}
	if rw.msg.Code >= 9 {
		verifReach("unknown code", true)
		verifAssert(err != nil && rw.sent == 0, "unknown message code => error, peer dropped")
		return
	}
	verifReach("hash request served", len(cm.asked) > 0)
	for _, a := range cm.asked {
		verifAssert(a <= uint64(downloader.MaxHashFetch), "at most MaxHashFetch hashes are requested from the chain per peer request")
	}
	verifAssert(rw.sent <= 1, "at most one reply per request")
}

// ---- GetBlocksMsg: the RLP stream is a cut (typed havoc): a list of K hashes, every one of which the node knows
var c15StreamLeft int

type c15StreamToken struct{ _ int }

func verifModelStreamList(s *rlpStream) (uint64, error) { return 0, nil }
func verifModelStreamDecode(s *rlpStream, val interface{}) error {
	if c15StreamLeft == 0 {
		return rlpEOL
	}
	c15StreamLeft--
	if h, ok := val.(*types.Hash); ok {
		*h = c16Hash(0, uint64(c15StreamLeft+1))
		return nil
	}
	verifAssert(false, "decode target not modelled")
	return nil
}

func (c *c15CountingChain) GetBlock(hash types.Hash) *nom.DetailedMomentum {
	return &nom.DetailedMomentum{Momentum: &nom.Momentum{Height: 5, Hash: hash, TimestampUnix: 1700000000}}
}

// VerifC15GetBlocksReplyCap: a GetBlocksMsg naming K known hashes (K up to 130) is answered with at most
// MaxBlockFetch momentums, in one reply.
func VerifC15GetBlocksReplyCap() {
	cm := &c15CountingChain{F: 1000}
	pm := &ProtocolManager{chainman: cm}
	rw := &c15RW{}
	c15CurRW = rw
	k := verifNondetLen("hashes in the request (index into {0,1,127,128,129,130})", 0, 5)
	c15StreamLeft = []int{0, 1, 127, 128, 129, 130}[k]
	K := c15StreamLeft
	rw.msg = p2p.Msg{Code: GetBlocksMsg, Size: uint32(33 * K)}
	p := &peer{rw: rw, id: "peer"}
	err := pm.handleMsg(p)
	verifAssert(err == nil, "a well-formed block request is served")
	verifAssert(rw.sent == 1 && rw.codes[0] == BlocksMsg, "exactly one BlocksMsg reply")
	want := K
	if want > downloader.MaxBlockFetch {
		want = downloader.MaxBlockFetch
	}
	verifReach("request above the cap", K > downloader.MaxBlockFetch)
	verifAssert(rw.count[0] <= downloader.MaxBlockFetch, "never more than MaxBlockFetch momentums per reply")
	verifAssert(rw.count[0] == want, "reply carries min(K, MaxBlockFetch) momentums")
}
