//go:build verif

package protocol

import (
	"github.com/ethereum/go-ethereum/rlp"
	"github.com/syndtr/goleveldb/leveldb"
	"github.com/syndtr/goleveldb/leveldb/memdb"

	"github.com/zenon-network/go-zenon/common"
	"github.com/zenon-network/go-zenon/common/types"
)

// same cuts as in the common/db harness (engine overrides must live in a loaded package)
func verifModelHHSerialize2(b *types.HashHeight) []byte {
	return common.JoinBytes(b.Hash.Bytes(), common.Uint64ToBytes(b.Height))
}
func verifModelHHDeserialize2(data []byte) (*types.HashHeight, error) {
	if len(data) != 40 {
		return nil, leveldb.ErrNotFound
	}
	hh := &types.HashHeight{Height: common.BytesToUint64(data[32:])}
	copy(hh.Hash[:], data[:32])
	return hh, nil
}
func verifModelRandHeight2(p *memdb.DB) int { return 1 }

type verifRandSource2 interface {
	Int63() int64
	Seed(seed int64)
}

func verifModelNewSourceNil2(seed int64) verifRandSource2 { return nil }

// aliases so that the harness can name geth's rlp stream type without importing it everywhere
type rlpStream = rlp.Stream

var rlpEOL = rlp.EOL
