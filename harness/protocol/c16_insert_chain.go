//go:build verif

package protocol

import (
	"sync"

	"github.com/zenon-network/go-zenon/chain"
	"github.com/zenon-network/go-zenon/chain/nom"
	"github.com/zenon-network/go-zenon/chain/store"
	"github.com/zenon-network/go-zenon/common/db"
	"github.com/zenon-network/go-zenon/common/types"
	"github.com/zenon-network/go-zenon/vm"
	"github.com/zenon-network/go-zenon/vm/constants"
)

// ---- model of the node's chain as seen by the chain bridge: heights 1..F with hash(tag, height);
// the local branch has tag 0; momentums adopted during the call are remembered per height.

func c16Hash(tag byte, height uint64) types.Hash {
	var h types.Hash
	h[0] = tag
	for i := 0; i < 8; i++ {
		h[31-i] = byte(height >> (8 * i))
	}
	return h
}

type c16Event struct {
	kind   string // rollback | block | force-add | momentum | add-momentum
	height uint64
	hash   types.Hash
}

type c16Chain struct {
	chain.Chain
	F        uint64
	adopted  map[uint64]types.Hash // heights whose local momentum was replaced/added during the call
	events   []c16Event
	failAt   int // index of the verification call that fails (-1: none)
	verCalls int
	pooled   bool
}

func (c *c16Chain) localHash(h uint64) types.Hash {
	if x, ok := c.adopted[h]; ok {
		return x
	}
	return c16Hash(0, h)
}

type c16Locker struct{}

func (c16Locker) Lock()   {}
func (c16Locker) Unlock() {}

func (c *c16Chain) AcquireInsert(reason string) sync.Locker  { return c16Locker{} }
func (c *c16Chain) GetFrontierMomentumStore() store.Momentum { return &c16Store{c: c} }
func (c *c16Chain) GetPatch(address types.Address, identifier types.HashHeight) db.Patch {
	if c.pooled {
		return db.NewPatch()
	}
	return nil
}
func (c *c16Chain) RollbackTo(insertLocker sync.Locker, identifier types.HashHeight) error {
	c.events = append(c.events, c16Event{kind: "rollback", height: identifier.Height, hash: identifier.Hash})
	verifAssert(identifier.Height >= 1 && identifier.Height <= c.F && c.localHash(identifier.Height) == identifier.Hash, "RollbackTo targets a momentum of the local chain")
	c.F = identifier.Height
	for h := range c.adopted {
		if h > c.F {
			delete(c.adopted, h)
		}
	}
	return nil
}
func (c *c16Chain) ForceAddAccountBlockTransaction(insertLocker sync.Locker, transaction *nom.AccountBlockTransaction) error {
	c.events = append(c.events, c16Event{kind: "force-add", height: transaction.Block.Height})
	return nil
}

// the non-forced insertion is what gossip uses: a pooled competitor with a better priority refuses the block.  A block
// cemented by a delivered momentum must not be subject to that (C02: same momentums in, same ledger out, whatever
// reached the node by gossip before)
func (c *c16Chain) AddAccountBlockTransaction(insertLocker sync.Locker, transaction *nom.AccountBlockTransaction) error {
	c.events = append(c.events, c16Event{kind: "add", height: transaction.Block.Height})
	verifAssert(false, "account blocks cemented by a delivered momentum are force-inserted, never offered to the pool's priority rule")
	return nil
}
func (c *c16Chain) AddMomentumTransaction(insertLocker sync.Locker, transaction *nom.MomentumTransaction) error {
	m := transaction.Momentum
	c.events = append(c.events, c16Event{kind: "add-momentum", height: m.Height, hash: m.Hash})
	verifAssert(m.Height == c.F+1 && m.PreviousHash == c.localHash(c.F), "a momentum is inserted only directly on top of the node's frontier")
	c.F = m.Height
	c.adopted[m.Height] = m.Hash
	return nil
}

type c16Store struct {
	store.Momentum
	c *c16Chain
}

func (s *c16Store) mk(h uint64) *nom.Momentum {
	if h < 1 || h > s.c.F {
		return nil
	}
	m := &nom.Momentum{Height: h, Hash: s.c.localHash(h)}
	if h > 1 {
		m.PreviousHash = s.c.localHash(h - 1)
	}
	return m
}
func (s *c16Store) GetMomentumByHeight(h uint64) (*nom.Momentum, error) { return s.mk(h), nil }
func (s *c16Store) GetFrontierMomentum() (*nom.Momentum, error)         { return s.mk(s.c.F), nil }

// verification oracle: the verification itself is C03/C05; here each element either verifies or not
var c16Cur *c16Chain

func verifModelApplyBlock(s *vm.Supervisor, block *nom.AccountBlock) (*nom.AccountBlockTransaction, error) {
	c := c16Cur
	c.events = append(c.events, c16Event{kind: "block", height: block.Height})
	i := c.verCalls
	c.verCalls++
	if i == c.failAt {
		return nil, constants.ErrVmRunPanic
	}
	return &nom.AccountBlockTransaction{Block: block}, nil
}
func verifModelApplyMomentum(s *vm.Supervisor, detailed *nom.DetailedMomentum) (*nom.MomentumTransaction, error) {
	c := c16Cur
	c.events = append(c.events, c16Event{kind: "momentum", height: detailed.Momentum.Height, hash: detailed.Momentum.Hash})
	i := c.verCalls
	c.verCalls++
	// contract of full verification (C05): a momentum that does not directly extend the frontier is rejected;
	// everything else about the verdict is arbitrary
	m := detailed.Momentum
	if m.Height != c.F+1 || m.PreviousHash != c.localHash(c.F) {
		c.failAt = i
	}
	if i == c.failAt {
		return nil, constants.ErrVmRunPanic
	}
	return &nom.MomentumTransaction{Momentum: detailed.Momentum}, nil
}

// VerifC16InsertChain: decision table of chainBridge.InsertChain over symbolic batches (1..3 momentums with
// arbitrary heights/hashes/links, 0..1 account block each) and a symbolic local chain.
func VerifC16InsertChain() {
	c := &c16Chain{adopted: map[uint64]types.Hash{}, failAt: -1}
	c16Cur = c
	c.F = verifNondetU64("local frontier height")
	verifAssume(c.F >= 1 && c.F < 1<<62, "the node has at least the genesis momentum")
	F0 := c.F
	c.pooled = verifNondetBool("delivered account blocks already pooled")
	if verifNondetBool("some verification fails") {
		c.failAt = verifNondetLen("failing verification call", 0, 5)
	}
	n := verifNondetLen("batch size", 1, verifParam("batch", 3))
	batch := make([]*nom.DetailedMomentum, n)
	for i := range batch {
		m := &nom.Momentum{}
		m.Height = verifNondetU64("m.Height")
		m.Hash = c16Hash(verifNondetU8("m.tag"), m.Height)
		m.PreviousHash = c16Hash(verifNondetU8("m.prevtag"), verifNondetU64("m.prevheight"))
		d := &nom.DetailedMomentum{Momentum: m}
		if verifNondetBool("has account block") {
			b := &nom.AccountBlock{Height: 1}
			if verifNondetBool("is contract send") {
				b.BlockType = nom.BlockTypeContractSend
			} else {
				b.BlockType = nom.BlockTypeUserSend
			}
			d.AccountBlocks = []*nom.AccountBlock{b}
		}
		batch[i] = d
	}
	// batches are arbitrary: elements need not link to each other (a momentum that does not extend the frontier is
	// rejected by verification when its turn comes - see verifModelApplyMomentum)
	orig := append([]*nom.DetailedMomentum{}, batch...)
	cb := chainBridge{chain: c, supervisor: &vm.Supervisor{}}

	// known-finding region F11: the first unknown momentum's predecessor height is not on the local chain
	// (gap above the frontier or height 0) -> nil dereference of `target`
	idx, err := cb.InsertChain(batch)

	// (i) all known => (0,nil) and no mutation
	known := 0
	for known < n && orig[known].Momentum.Height >= 1 && orig[known].Momentum.Height <= F0 && orig[known].Momentum.Hash == c16Hash(0, orig[known].Momentum.Height) {
		known++
	}
	if known == n {
		verifReach("all known", true)
		verifAssert(err == nil && idx == 0 && len(c.events) == 0, "re-delivering known momentums changes nothing")
		return
	}
	head := orig[known].Momentum
	tail := orig[n-1].Momentum
	extends := head.Height == F0+1 && head.PreviousHash == c16Hash(0, F0)
	// (ii) rollback only for a strictly longer side chain that links within 30 heights
	rolled := false
	for i, e := range c.events {
		if e.kind == "rollback" {
			rolled = true
			verifAssert(i == 0, "rollback happens before anything is applied")
			verifAssert(!extends, "no rollback for a plain extension")
			verifAssert(head.Height >= 2 && e.height == head.Height-1 && e.hash == head.PreviousHash, "rollback target is the link point of the delivered chain")
			verifAssert(F0-e.height <= 30, "rollback distance at most 30")
			verifAssert(tail.Height > F0, "the adopted chain is strictly longer than the abandoned one")
		}
	}
	verifReach("rolled back", rolled)
	verifReach("extension", extends && err == nil)
	verifReach("failed verification", err != nil && c.verCalls > 0 && c.failAt >= 0 && c.failAt < c.verCalls)
	if !extends && !rolled {
		verifAssert(err != nil && len(c.events) == 0, "a batch that neither extends nor qualifies as a side chain is refused without any mutation")
		return
	}
	// (iii) in order, (iv) stop at the first failure with its index
	applied := 0
	for _, e := range c.events {
		if e.kind == "add-momentum" {
			verifAssert(e.hash == orig[known+applied].Momentum.Hash, "momentums are inserted strictly in delivered order")
			applied++
		}
	}
	if err == nil {
		verifAssert(applied == n-known, "success => every unknown momentum was inserted")
		verifAssert(c.failAt < 0 || c.failAt >= c.verCalls, "success => no verification failed")
	} else {
		verifAssert(c.failAt >= 0 && c.failAt == c.verCalls-1, "an error is reported only for a failed verification, and nothing is verified after it")
		verifAssert(idx == known+applied, "the reported index is the failing momentum's position in the delivered batch")
		last := c.events[len(c.events)-1]
		verifAssert(last.kind == "block" || last.kind == "momentum", "no chain mutation after the failing element")
	}
}
