//go:build verif

package verifier

import (
	"github.com/zenon-network/go-zenon/chain/nom"
	"github.com/zenon-network/go-zenon/common/types"
)

// c03Valid: the validity predicate of the property, restated independently of verifier/.
// It is asserted for every block the verifier accepts.
func c03Valid(b *nom.AccountBlock, c *c03Chain, withTransaction bool) {
	embedded := b.Address[0] == types.ContractAddrByte
	isSend := b.BlockType == nom.BlockTypeUserSend || b.BlockType == nom.BlockTypeContractSend
	isRecv := b.BlockType == nom.BlockTypeUserReceive || b.BlockType == nom.BlockTypeContractReceive
	verifAssert(b.Version == 1, "accepted => version 1")
	verifAssert(b.ChainIdentifier == 1, "accepted => chain identifier of this network")
	verifAssert(isSend || isRecv, "accepted => one of the four regular block types")
	verifAssert(b.BlockType != nom.BlockTypeContractSend, "accepted => not a ContractSend delivered on its own")
	verifAssert(embedded == (b.BlockType == nom.BlockTypeContractReceive), "accepted => block kind matches the address kind")
	// extends the account chain by exactly one from its stated predecessor
	verifAssert(b.Height >= 1, "accepted => height >= 1")
	verifAssert((b.Height == 1) == b.PreviousHash.IsZero(), "accepted => previous hash is zero exactly for the first block")
	verifAssert(c.account != nil && c.accountAddr == b.Address, "accepted => the node holds the account chain up to the stated predecessor")
	if b.Height > 1 && !embedded {
		f := c.account.frontier
		verifAssert(f != nil && f.Height+1 == b.Height && f.Hash == b.PreviousHash, "accepted => height = predecessor height + 1 and previous hash = predecessor hash")
	}
	// acknowledges a momentum of the node's chain
	verifAssert(c.maStore != nil && c.maID == b.MomentumAcknowledged && !b.MomentumAcknowledged.IsZero(), "accepted => acknowledged momentum is on the node's chain")
	if !embedded && b.Height > 1 {
		verifAssert(b.MomentumAcknowledged.Height >= c.account.frontier.MomentumAcknowledged.Height, "accepted user block => acknowledged momentum not older than the predecessor's")
	}
	if isSend {
		verifAssert(b.Amount != nil && b.Amount.Sign() >= 0 && c03BigLt(b.Amount, 255), "accepted send => 0 <= amount < 2^255")
		verifAssert(b.Amount.Sign() == 0 || b.TokenStandard != types.ZeroTokenStandard, "accepted send => a positive amount names a token")
		verifAssert(b.FromBlockHash.IsZero(), "accepted send => no from-block")
	}
	if isRecv {
		verifAssert(b.Amount == nil || b.Amount.Sign() == 0, "accepted receive => no amount")
		verifAssert(b.TokenStandard == types.ZeroTokenStandard && b.ToAddress == types.ZeroAddress, "accepted receive => no token / destination")
		verifAssert(!b.FromBlockHash.IsZero(), "accepted receive => names a from-block")
		from, _ := c.maStore.GetAccountBlockByHash(b.FromBlockHash)
		verifAssert(from != nil, "accepted receive => the send exists as of the acknowledged momentum")
		verifAssert(!c.account.IsReceived(b.FromBlockHash), "accepted receive => the send was not received on this account chain")
		if c.frontier.id.Height >= ReceiverMismatchEnforcementHeight {
			verifAssert(from.ToAddress == b.Address, "accepted receive (from the enforcement height on) => the send is addressed to this account")
		}
		if embedded {
			ch, _ := c.maStore.GetBlockConfirmationHeight(b.FromBlockHash)
			verifAssert(ch == b.MomentumAcknowledged.Height, "accepted contract receive => acknowledges exactly the momentum that confirmed the send")
			front := c.account.SequencerFront(nil)
			verifAssert(front != nil && *front == from.Header(), "accepted contract receive => the send is the next entry of the contract's inbox")
		}
	}
	if b.Difficulty != 0 {
		verifAssert(!embedded, "accepted => contracts carry no proof-of-work")
	}
	if withTransaction {
		verifAssert(!b.Hash.IsZero() && b.Hash == b.ComputeHash(), "accepted => hash matches content")
		if embedded {
			verifAssert(len(b.PublicKey) == 0 && len(b.Signature) == 0, "accepted contract block => no key, no signature")
		} else {
			verifAssert(len(b.PublicKey) == 32 && len(b.Signature) == 64, "accepted user block => carries a key and a signature")
			ok, _ := verifVerify(b)
			verifAssert(ok, "accepted user block => signature verifies under the carried key")
			verifAssert(types.PubKeyToAddress(b.PublicKey) == b.Address, "accepted user block => the key owns the account")
		}
		if b.BlockType != nom.BlockTypeContractReceive {
			verifAssert(len(b.DescendantBlocks) == 0, "accepted => only contract receives carry descendants")
		}
		// descendants are account blocks the node stores and later lets their addressees receive: the same rule
		// "hash matches content" applies to them (the parent's hash covers only the descendants' hash fields); that they are the sends the contract
		// really generates is decided at the VM level (O3: the regenerated block has the same hash)
		for _, d := range b.DescendantBlocks {
			verifAssert(d.Hash == d.ComputeHash(), "accepted => every descendant's hash matches the descendant's content")
			verifAssert(d.Amount != nil && d.Amount.Sign() >= 0 && c03BigLt(d.Amount, 255), "accepted => descendant amounts in [0, 2^255)")
		}
	}
}

func c03Run(f func() error) (err error, panicked bool) {
	defer func() {
		if r := recover(); r != nil {
			err, panicked = ErrABHashInvalid, true
		}
	}()
	return f(), false
}

// VerifC03AcceptedImpliesValid: for every candidate block (all fields arbitrary, all five type codes and
// invalid ones) and every ledger environment, acceptance by the verifier implies the validity predicate.
// Every single- or multi-field corruption of a valid block is covered because every block value is.
func VerifC03AcceptedImpliesValid() {
	b := c03Block("b", verifParam("data", 1))
	c := c03Env(b)
	av := &accountVerifier{chain: c}
	err, panicked := c03Run(func() error { return av.AccountBlock(b) })
	verifReach("panic contained by the supervisor (nil amount)", panicked)
	if err != nil {
		verifReach("rejected", true)
		return
	}
	verifReach("accepted user send", b.BlockType == nom.BlockTypeUserSend)
	verifReach("accepted user receive", b.BlockType == nom.BlockTypeUserReceive)
	verifReach("accepted contract receive", b.BlockType == nom.BlockTypeContractReceive)
	// second stage: transaction checks (hash, signature, key ownership, descendants)
	c03KeyAndSignature(b, "b")
	err, _ = c03Run(func() error { return av.AccountBlockTransaction(&nom.AccountBlockTransaction{Block: b}) })
	if err != nil {
		verifReach("rejected at transaction stage", true)
		return
	}
	verifReach("fully accepted user block", b.Address[0] != types.ContractAddrByte)
	verifReach("fully accepted contract block", b.Address[0] == types.ContractAddrByte)
	c03Valid(b, c, true)
}
