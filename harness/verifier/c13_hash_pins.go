//go:build verif

package verifier

import (
	"bytes"
	"math/big"

	"github.com/zenon-network/go-zenon/chain/nom"
	"github.com/zenon-network/go-zenon/common"
	"github.com/zenon-network/go-zenon/common/types"
)

func c13Accept(av *accountVerifier, b *nom.AccountBlock) bool {
	err, _ := c03Run(func() error { return av.AccountBlock(b) })
	if err != nil {
		return false
	}
	c03KeyAndSignature(b, "k")
	err, _ = c03Run(func() error { return av.AccountBlockTransaction(&nom.AccountBlockTransaction{Block: b}) })
	return err == nil
}

func c13BigEq(a, b *nom.AccountBlock) bool {
	if a.Amount == nil || b.Amount == nil {
		// a nil amount and a zero amount are the same value once stored (BigIntToBytes)
		az := a.Amount == nil || a.Amount.Sign() == 0
		bz := b.Amount == nil || b.Amount.Sign() == 0
		return az && bz
	}
	return a.Amount.Cmp(b.Amount) == 0
}

// VerifC13HashCoversFields: ComputeHash commits to every listed field: two blocks with equal computed hashes agree
// on all of them (sha3 collision-free; data of equal length; 0 or 1 descendant).
func VerifC13HashCoversFields() {
	b1 := c03Block("b1", verifParam("data", 2))
	b2 := c03Block("b2", verifParam("data", 2))
	nd := verifNondetLen("descendants", 0, 1)
	if nd == 1 {
		b1.DescendantBlocks = []*nom.AccountBlock{{Hash: c03Hash("d1.Hash")}}
		b2.DescendantBlocks = []*nom.AccountBlock{{Hash: c03Hash("d2.Hash")}}
	}
	h1, h2 := b1.ComputeHash(), b2.ComputeHash()
	verifAssume(h1 == h2, "equal computed hashes")
	verifReach("equal hashes", true)
	verifAssert(b1.Version == b2.Version && b1.ChainIdentifier == b2.ChainIdentifier && b1.BlockType == b2.BlockType, "hash pins version / chain id / type")
	verifAssert(b1.PreviousHash == b2.PreviousHash && b1.Height == b2.Height, "hash pins the position in the account chain")
	verifAssert(b1.MomentumAcknowledged == b2.MomentumAcknowledged, "hash pins the acknowledged momentum")
	verifAssert(b1.Address == b2.Address && b1.ToAddress == b2.ToAddress, "hash pins sender and destination")
	verifAssert(b1.TokenStandard == b2.TokenStandard, "hash pins the token")
	verifAssert(b1.FromBlockHash == b2.FromBlockHash, "hash pins the received send")
	verifAssert(bytes.Equal(b1.Data, b2.Data), "hash pins the call data")
	verifAssert(b1.FusedPlasma == b2.FusedPlasma && b1.Difficulty == b2.Difficulty && b1.Nonce == b2.Nonce, "hash pins fused plasma, difficulty and nonce")
	if nd == 1 {
		verifAssert(b1.DescendantBlocks[0].Hash == b2.DescendantBlocks[0].Hash, "hash pins the descendants' hashes")
	}
	// amounts: the preimage holds the 32-byte big-endian form (nil is stored as zero); for the amounts the verifier
	// accepts (0 <= a < 2^255 < 2^256) that form determines the amount
	verifAssert(bytes.Equal(common.BigIntToBytes(b1.Amount), common.BigIntToBytes(b2.Amount)), "hash pins the 32-byte amount")
}

// VerifC13UncoveredFieldsPinned: a variant of an accepted block that differs only in fields outside the hash
// (changes hash, plasma fields) must not be acceptable as well, unless the receiver recomputes the field
// (user plasma fields: recomputed by the VM, C12).  Fields the receiver neither recomputes nor compares end up
// in the stored bytes and are reported.
func VerifC13UncoveredFieldsPinned() {
	b1 := c03Block("b1", verifParam("data", 1))
	c := c03Env(b1)
	av := &accountVerifier{chain: c}
	if !c13Accept(av, b1) {
		return
	}
	b2 := *b1
	b2.ChangesHash = c03Hash("b2.ChangesHash")
	b2.BasePlasma = verifNondetU64("b2.BasePlasma")
	b2.TotalPlasma = verifNondetU64("b2.TotalPlasma")
	err, _ := c03Run(func() error { return av.AccountBlock(&b2) })
	if err != nil {
		return
	}
	err, _ = c03Run(func() error { return av.AccountBlockTransaction(&nom.AccountBlockTransaction{Block: &b2}) })
	if err != nil {
		return
	}
	embedded := b1.Address[0] == types.ContractAddrByte
	verifReach("variant accepted too (user)", !embedded)
	verifReach("variant accepted too (contract)", embedded)
	if !embedded {
		// user blocks: ChangesHash is neither in the hash nor recomputed/compared when a block is received
		verifAssertKnown(b1.ChangesHash == b2.ChangesHash, "stored ChangesHash of a user block is pinned by verification", true, "C13-F9a")
	} else {
		// contract receive blocks: the VM compares ChangesHash with the regenerated block (vm.applyBlock) but
		// leaves the delivered plasma fields untouched
		verifAssertKnown(b1.BasePlasma == b2.BasePlasma && b1.TotalPlasma == b2.TotalPlasma, "stored plasma fields of a contract block are pinned by verification", true, "C13-F9b")
	}
}

// VerifC13MomentumHashCoversFields: a momentum's hash commits to version, chain, predecessor, height, timestamp, data,
// the changes hash and the content - including the ORDER of the content headers (sha3 collision-free; 2 headers, data <= 1 byte).
func VerifC13MomentumHashCoversFields() {
	mk := func(tag string) *nom.Momentum {
		m := &nom.Momentum{}
		m.Version = verifNondetU64(tag + ".Version")
		m.ChainIdentifier = verifNondetU64(tag + ".ChainIdentifier")
		m.PreviousHash = c03Hash(tag + ".PreviousHash")
		m.Height = verifNondetU64(tag + ".Height")
		m.TimestampUnix = verifNondetU64(tag + ".TimestampUnix")
		m.Data = verifNondetBytes(tag+".Data", 1)
		m.ChangesHash = c03Hash(tag + ".ChangesHash")
		for i := 0; i < 2; i++ {
			h := &types.AccountHeader{Address: c03Addr(tag + ".c.Address"), HashHeight: types.HashHeight{Hash: c03Hash(tag + ".c.Hash"), Height: verifNondetU64(tag + ".c.Height")}}
			m.Content = append(m.Content, h)
		}
		return m
	}
	m1, m2 := mk("m1"), mk("m2")
	verifAssume(m1.ComputeHash() == m2.ComputeHash(), "equal computed hashes")
	verifReach("equal hashes", true)
	verifAssert(m1.Version == m2.Version && m1.ChainIdentifier == m2.ChainIdentifier, "hash pins version / chain id")
	verifAssert(m1.PreviousHash == m2.PreviousHash && m1.Height == m2.Height, "hash pins the position in the chain")
	verifAssert(m1.TimestampUnix == m2.TimestampUnix, "hash pins the timestamp")
	verifAssert(bytes.Equal(m1.Data, m2.Data), "hash pins the data")
	verifAssert(m1.ChangesHash == m2.ChangesHash, "hash pins the changes hash")
	for i := 0; i < 2; i++ {
		verifAssert(*m1.Content[i] == *m2.Content[i], "hash pins the content, header by header in order")
	}
}

// VerifC13DescendantPinned: a contract receive block that is fully accepted with one descendant block, and a variant
// that carries the same parent fields and the same descendant hash field but arbitrary descendant content.  If the
// variant is acceptable too, its descendant agrees with the original on every field the descendant's hash covers
// (destination, token, amount: defect F13, repaired) — the fields outside the descendant's hash (changes hash, plasma
// fields) are neither recomputed nor compared and end up in the stored bytes (known finding F9c).
func VerifC13DescendantPinned() {
	b1 := c03Block("b1", 0)
	if len(b1.DescendantBlocks) != 1 {
		return
	}
	verifAssume(b1.BlockType == nom.BlockTypeContractReceive && b1.Address[0] == types.ContractAddrByte, "only contract receives are accepted with descendants (C03)")
	c := c03Env(b1)
	av := &accountVerifier{chain: c}
	if !c13Accept(av, b1) {
		return
	}
	d1 := b1.DescendantBlocks[0]
	b2 := *b1
	d2 := *d1
	d2.ToAddress = c03Addr("d2.ToAddress")
	d2.Amount = new(big.Int).SetBytes(verifNondetBytes("d2.Amount", 32))
	copy(d2.TokenStandard[:], verifNondetBytes("d2.ZTS", 10))
	d2.ChangesHash = c03Hash("d2.ChangesHash")
	d2.BasePlasma = verifNondetU64("d2.BasePlasma")
	d2.TotalPlasma = verifNondetU64("d2.TotalPlasma")
	b2.DescendantBlocks = []*nom.AccountBlock{&d2}
	err, _ := c03Run(func() error { return av.AccountBlock(&b2) })
	if err != nil {
		return
	}
	err, _ = c03Run(func() error { return av.AccountBlockTransaction(&nom.AccountBlockTransaction{Block: &b2}) })
	if err != nil {
		verifReach("variant rejected", true)
		return
	}
	verifReach("variant accepted too", true)
	verifAssert(d1.ToAddress == d2.ToAddress && d1.TokenStandard == d2.TokenStandard && bytes.Equal(common.BigIntToBytes(d1.Amount), common.BigIntToBytes(d2.Amount)), "an acceptable variant's descendant has the same destination, token and amount")
	verifAssertKnown(d1.ChangesHash == d2.ChangesHash && d1.BasePlasma == d2.BasePlasma && d1.TotalPlasma == d2.TotalPlasma, "stored changes hash / plasma fields of a descendant block are pinned by verification", true, "C13-F9c")
}
