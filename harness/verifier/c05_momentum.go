//go:build verif

package verifier

import (
	"time"

	"github.com/zenon-network/go-zenon/chain"
	"github.com/zenon-network/go-zenon/chain/nom"
	"github.com/zenon-network/go-zenon/chain/store"
	"github.com/zenon-network/go-zenon/common/db"
	"github.com/zenon-network/go-zenon/common/types"
	"github.com/zenon-network/go-zenon/consensus"
)

type c05Store struct {
	store.Momentum
	frontier *nom.Momentum
	accFront map[types.Address]*nom.AccountBlock
}

func (s *c05Store) ChainIdentifier() uint64                     { return 1 }
func (s *c05Store) GetFrontierMomentum() (*nom.Momentum, error) { return s.frontier, nil }
func (s *c05Store) GetFrontierAccountBlock(a types.Address) (*nom.AccountBlock, error) {
	if b, ok := s.accFront[a]; ok {
		return b, nil
	}
	var b *nom.AccountBlock
	if verifNondetBool("account has confirmed blocks") {
		b = &nom.AccountBlock{Address: a, Hash: c03Hash("acc.frontier.Hash"), Height: verifNondetU64("acc.frontier.Height")}
	}
	s.accFront[a] = b
	return b, nil
}

type c05Chain struct {
	chain.Chain
	st   *c05Store
	have bool
}

func (c *c05Chain) GetMomentumStore(id types.HashHeight) store.Momentum {
	// contract (C07): a store returned for identifier X has X as its frontier
	if !c.have || c.st.frontier.Identifier() != id {
		return nil
	}
	return c.st
}

type c05Consensus struct {
	consensus.Consensus
	elected bool
	asked   int
}

func (c *c05Consensus) VerifyMomentumProducer(m *nom.Momentum) (bool, error) {
	c.asked++
	return c.elected, nil
}

// VerifC05AcceptedMomentumIsValid: for every candidate momentum (all fields arbitrary) and environment, acceptance by
// the momentum verifier implies the validity predicate of the property.  Election (who is scheduled for a timestamp)
// is an oracle here; the schedule itself is decided by the schedule/tick obligations.
func VerifC05AcceptedMomentumIsValid() {
	m := &nom.Momentum{}
	m.Version = verifNondetU64("m.Version")
	m.ChainIdentifier = verifNondetU64("m.ChainIdentifier")
	m.Hash = c03Hash("m.Hash")
	m.PreviousHash = c03Hash("m.PreviousHash")
	m.Height = verifNondetU64("m.Height")
	m.TimestampUnix = verifNondetU64("m.TimestampUnix")
	verifAssume(m.TimestampUnix < 1<<40, "timestamps below year 36812")
	ts := time.Unix(int64(m.TimestampUnix), 0) // EnsureCache: Timestamp is derived from TimestampUnix
	m.Timestamp = &ts
	m.Data = verifNondetBytes("m.Data", verifNondetLen("len(m.Data)", 0, 1))
	m.ChangesHash = c03Hash("m.ChangesHash")
	m.PublicKey = verifNondetBytes("m.PublicKey", 32)
	m.Signature = verifNondetBytes("m.Signature", 64)
	nContent := verifNondetLen("content headers", 0, 1)
	var blocks []*nom.AccountBlock
	if nContent == 1 {
		h := &types.AccountHeader{Address: c03Addr("c.Address"), HashHeight: types.HashHeight{Hash: c03Hash("c.Hash"), Height: verifNondetU64("c.Height")}}
		m.Content = nom.MomentumContent{h}
	}
	if verifNondetBool("one prefetched block") {
		b := &nom.AccountBlock{Address: c03Addr("blk.Address"), Hash: c03Hash("blk.Hash"), Height: verifNondetU64("blk.Height"), PreviousHash: c03Hash("blk.PreviousHash"), BlockType: nom.BlockTypeUserSend}
		blocks = []*nom.AccountBlock{b}
	}
	prevM := &nom.Momentum{Hash: m.PreviousHash, Height: m.Height - 1, TimestampUnix: verifNondetU64("previous.TimestampUnix")}
	c := &c05Chain{st: &c05Store{frontier: prevM, accFront: map[types.Address]*nom.AccountBlock{}}, have: verifNondetBool("node has the predecessor")}
	verifAssume(!c.have || (prevM.Height >= 1 && prevM.Height < 1<<62), "stores exist only for momentums of the chain (1 <= height < 2^62)")
	cons := &c05Consensus{elected: verifNondetBool("signer is the pillar elected for the slot of the timestamp")}
	mv := &momentumVerifier{chain: c, consensus: cons}

	err, _ := c03Run(func() error { return mv.Momentum(&nom.DetailedMomentum{Momentum: m, AccountBlocks: blocks}) })
	if err != nil {
		verifReach("rejected (raw)", true)
		return
	}
	now := time.Now() // the same (non-decreasing) model clock the verifier read
	changes := db.NewPatch()
	err, _ = c03Run(func() error { return mv.MomentumTransaction(&nom.MomentumTransaction{Momentum: m, Changes: changes}) })
	if err != nil {
		verifReach("rejected (transaction)", true)
		return
	}
	verifReach("accepted", true)
	verifReach("accepted with content", nContent == 1)
	verifAssert(m.Version == 1 && m.ChainIdentifier == 1, "accepted => version 1 on this chain")
	verifAssert(m.Height >= 2 && c.have && m.PreviousHash == prevM.Hash && m.Height == prevM.Height+1, "accepted => directly extends the frontier it is applied to")
	verifAssert(m.TimestampUnix > prevM.TimestampUnix, "accepted => strictly later than its predecessor")
	verifAssert(int64(m.TimestampUnix) <= now.Unix()+10, "accepted => not more than 10 s in the future")
	verifAssert(len(m.Data) == 0, "accepted => no data")
	verifAssert(m.Hash == m.ComputeHash(), "accepted => hash commits to the content (incl. changes hash)")
	verifAssert(m.ChangesHash == db.PatchHash(changes), "accepted => changes hash = hash of the resulting state changes")
	ok, _ := walletVerify(m.PublicKey, m.Hash.Bytes(), m.Signature)
	verifAssert(ok, "accepted => signed")
	verifAssert(cons.elected && cons.asked == 1, "accepted => signer is the pillar elected for that slot")
	verifAssert(len(blocks) == nContent, "accepted => content and delivered blocks correspond one to one")
	if nContent == 1 {
		verifAssert(blocks[0].Identifier() == m.Content[0].Identifier(), "accepted => each content header has its block")
		f := c.st.accFront[m.Content[0].Address]
		want := types.ZeroHashHeight
		if f != nil {
			want = f.Identifier()
		}
		if !isBatched(blocks[0]) {
			// blocks emitted by a contract (batched sends) are linked through the receive block that carries them
			verifAssert(blocks[0].Previous() == want, "accepted => per account the content extends the confirmed chain without a gap")
		}
	}
}
