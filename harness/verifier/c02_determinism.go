//go:build verif

package verifier

import (
	"github.com/zenon-network/go-zenon/chain/nom"
	"github.com/zenon-network/go-zenon/common/types"
)

// VerifC02VerdictIndependentOfNodeLocalState: the verdict on an account block is a function of the block, the ledger
// as of its acknowledged momentum and the account chain up to its predecessor - not of node-local state.  Two nodes
// share those and differ in everything node-local the verifier can see: their frontier momentum (height/hash).
func VerifC02VerdictIndependentOfNodeLocalState() {
	b := c03Block("b", verifParam("data", 1))
	c := c03Env(b)
	av1 := &accountVerifier{chain: c}
	err1, _ := c03Run(func() error { return av1.AccountBlock(b) })

	// second node: same acknowledged momentum store, same account store (same lazily drawn contents: the models memoise),
	// a different frontier
	c2 := *c
	f2 := *c.frontier
	f2.id = types.HashHeight{Hash: c03Hash("frontier2.Hash"), Height: verifNondetU64("frontier2.Height")}
	// everything the second node's frontier store holds is node-local too: independent lazily drawn contents
	f2.blocks = map[types.Hash]*nom.AccountBlock{}
	f2.confirm = map[types.Hash]uint64{}
	c2.frontier = &f2
	av2 := &accountVerifier{chain: &c2}
	err2, _ := c03Run(func() error { return av2.AccountBlock(b) })

	verifReach("accepted by node 1", err1 == nil)
	verifReach("rejected by node 1", err1 != nil)
	// F10 region: a receive whose address differs from the send's destination, with the two frontiers on different
	// sides of the enforcement height
	inRegion := false
	if b.BlockType == nom.BlockTypeUserReceive || b.BlockType == nom.BlockTypeContractReceive {
		if c.maStore != nil {
			if from := c.maStore.blocks[b.FromBlockHash]; from != nil && from.ToAddress != b.Address {
				h1, h2 := c.frontier.id.Height, f2.id.Height
				inRegion = (h1 >= ReceiverMismatchEnforcementHeight) != (h2 >= ReceiverMismatchEnforcementHeight)
			}
		}
	}
	verifAssertKnown((err1 == nil) == (err2 == nil), "two nodes with the same acknowledged momentum and account chain reach the same verdict", inRegion, "C02-F10")
}
