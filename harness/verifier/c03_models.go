//go:build verif

package verifier

import (
	"math/big"

	"github.com/zenon-network/go-zenon/chain"
	"github.com/zenon-network/go-zenon/chain/nom"
	"github.com/zenon-network/go-zenon/chain/store"
	"github.com/zenon-network/go-zenon/common/types"
	"github.com/zenon-network/go-zenon/wallet"
)

var walletVerify = wallet.VerifySignature

// ---- environment models: the ledger as seen by the verifier.  Everything the block does not determine is an
// arbitrary (symbolic) value, constrained only by the contracts C07/C14 establish for the stores.

func c03Hash(tag string) types.Hash {
	var h types.Hash
	copy(h[:], verifNondetBytes(tag, 32))
	return h
}
func c03Addr(tag string) types.Address {
	var a types.Address
	copy(a[:], verifNondetBytes(tag, 20))
	return a
}

type c03Account struct {
	store.Account
	addr     types.Address
	frontier *nom.AccountBlock // nil: empty chain
	received map[types.Hash]bool
	seqFront *types.AccountHeader
	seqDrawn bool
}

func (a *c03Account) Address() *types.Address { return &a.addr }
func (a *c03Account) Identifier() types.HashHeight {
	if a.frontier == nil {
		return types.ZeroHashHeight
	}
	return a.frontier.Identifier()
}
func (a *c03Account) Frontier() (*nom.AccountBlock, error) { return a.frontier, nil }
func (a *c03Account) ByHeight(h uint64) (*nom.AccountBlock, error) {
	if a.frontier != nil && a.frontier.Height == h {
		return a.frontier, nil
	}
	verifAssert(false, "model: only the frontier block of the account chain is read")
	return nil, nil
}
func (a *c03Account) ByHash(h types.Hash) (*nom.AccountBlock, error) {
	// only used to word an error message (cemented-on-top vs height-exists)
	if verifNondetBool("account.ByHash finds a block") {
		return &nom.AccountBlock{Hash: h}, nil
	}
	return nil, nil
}
func (a *c03Account) IsReceived(hash types.Hash) bool {
	if v, ok := a.received[hash]; ok {
		return v
	}
	v := verifNondetBool("account.IsReceived")
	a.received[hash] = v
	return v
}
func (a *c03Account) SequencerFront(mailbox store.AccountMailbox) *types.AccountHeader {
	if !a.seqDrawn {
		a.seqDrawn = true
		if verifNondetBool("contract inbox non-empty") {
			a.seqFront = &types.AccountHeader{Address: c03Addr("seq.Address"), HashHeight: types.HashHeight{Hash: c03Hash("seq.Hash"), Height: verifNondetU64("seq.Height")}}
		}
	}
	return a.seqFront
}

type c03Momentum struct {
	store.Momentum
	id       types.HashHeight
	chainID  uint64
	blocks   map[types.Hash]*nom.AccountBlock // lazily materialised stored blocks (nil = does not exist)
	confirm  map[types.Hash]uint64
	accounts map[types.Address]*c03Account
}

func (m *c03Momentum) Identifier() types.HashHeight { return m.id }
func (m *c03Momentum) ChainIdentifier() uint64      { return m.chainID }
func (m *c03Momentum) GetFrontierMomentum() (*nom.Momentum, error) {
	return &nom.Momentum{Hash: m.id.Hash, Height: m.id.Height}, nil
}
func (m *c03Momentum) GetAccountBlockByHash(hash types.Hash) (*nom.AccountBlock, error) {
	if b, ok := m.blocks[hash]; ok {
		return b, nil
	}
	var b *nom.AccountBlock
	if verifNondetBool("stored block exists") {
		// a stored send block: well-formed because the same verifier accepted it earlier
		b = &nom.AccountBlock{Hash: hash, BlockType: nom.BlockTypeUserSend, Version: 1}
		b.Address = c03Addr("stored.Address")
		b.ToAddress = c03Addr("stored.ToAddress")
		b.Height = verifNondetU64("stored.Height")
		b.Amount = verifNondetBig("stored.Amount")
		verifAssume(b.Height >= 1 && b.Amount.Sign() >= 0, "stored blocks are well-formed (accepted earlier by the same rules)")
	}
	m.blocks[hash] = b
	return b, nil
}
func (m *c03Momentum) GetBlockConfirmationHeight(hash types.Hash) (uint64, error) {
	if v, ok := m.confirm[hash]; ok {
		return v, nil
	}
	v := verifNondetU64("confirmation height")
	m.confirm[hash] = v
	return v, nil
}
func (m *c03Momentum) GetAccountMailbox(address types.Address) store.AccountMailbox { return nil }
func (m *c03Momentum) GetAccountStore(address types.Address) store.Account {
	// the confirmed state of an account as of this momentum: independent of the (possibly unconfirmed) account chain
	if a, ok := m.accounts[address]; ok {
		return a
	}
	a := &c03Account{addr: address, received: map[types.Hash]bool{}}
	m.accounts[address] = a
	return a
}

type c03Chain struct {
	chain.Chain
	maStore     *c03Momentum // store of the acknowledged momentum, nil if the node does not have it
	maID        types.HashHeight
	frontier    *c03Momentum
	account     *c03Account // store at block.Previous(), nil if the node does not have it
	accountAddr types.Address
	accountPrev types.HashHeight
}

func (c *c03Chain) GetMomentumStore(id types.HashHeight) store.Momentum {
	// contract (C07): a store returned for an identifier has exactly that identifier as its frontier
	if c.maStore == nil || id != c.maID {
		return nil
	}
	return c.maStore
}
func (c *c03Chain) GetFrontierMomentumStore() store.Momentum { return c.frontier }
func (c *c03Chain) GetAccountStore(address types.Address, identifier types.HashHeight) store.Account {
	// contract (C14): the account store at identifier X has X as its frontier block
	if c.account == nil || address != c.accountAddr || identifier != c.accountPrev {
		return nil
	}
	return c.account
}

// c03Block: an arbitrary candidate block (every field symbolic).
func c03Block(tag string, dataLen int) *nom.AccountBlock {
	b := &nom.AccountBlock{}
	b.Version = verifNondetU64(tag + ".Version")
	b.ChainIdentifier = verifNondetU64(tag + ".ChainIdentifier")
	b.BlockType = verifNondetU64(tag + ".BlockType")
	b.Hash = c03Hash(tag + ".Hash")
	b.PreviousHash = c03Hash(tag + ".PreviousHash")
	b.Height = verifNondetU64(tag + ".Height")
	b.MomentumAcknowledged = types.HashHeight{Hash: c03Hash(tag + ".MA.Hash"), Height: verifNondetU64(tag + ".MA.Height")}
	b.Address = c03Addr(tag + ".Address")
	b.ToAddress = c03Addr(tag + ".ToAddress")
	// amount: nil, or any integer with |a| < 2^256 given by 32 magnitude bytes and a sign (keeps the hash
	// preimage in bit-vector arithmetic); larger magnitudes only add bytes that the BitLen check rejects alike
	switch verifNondetLen(tag+".Amount kind (0 nil, 1 non-negative, 2 negative)", 0, verifParam("amountkinds", 2)) {
	case 1:
		b.Amount = new(big.Int).SetBytes(verifNondetBytes(tag+".Amount", 32))
	case 2:
		b.Amount = new(big.Int).Neg(new(big.Int).SetBytes(verifNondetBytes(tag+".Amount", 32)))
		verifAssume(b.Amount.Sign() < 0, "negative amount")
	}
	copy(b.TokenStandard[:], verifNondetBytes(tag+".ZTS", 10))
	b.FromBlockHash = c03Hash(tag + ".FromBlockHash")
	b.Data = verifNondetBytes(tag+".Data", dataLen)
	b.FusedPlasma = verifNondetU64(tag + ".FusedPlasma")
	b.Difficulty = verifNondetU64(tag + ".Difficulty")
	copy(b.Nonce.Data[:], verifNondetBytes(tag+".Nonce", 8))
	b.BasePlasma = verifNondetU64(tag + ".BasePlasma")
	b.TotalPlasma = verifNondetU64(tag + ".TotalPlasma")
	b.ChangesHash = c03Hash(tag + ".ChangesHash")
	if verifParam("descendants", 0) > 0 && verifNondetBool(tag+".has a descendant block") {
		d := &nom.AccountBlock{}
		d.Version = verifNondetU64(tag + ".d.Version")
		d.ChainIdentifier = verifNondetU64(tag + ".d.ChainIdentifier")
		d.BlockType = verifNondetU64(tag + ".d.BlockType")
		d.Hash = c03Hash(tag + ".d.Hash")
		d.PreviousHash = c03Hash(tag + ".d.PreviousHash")
		d.Height = verifNondetU64(tag + ".d.Height")
		d.MomentumAcknowledged = types.HashHeight{Hash: c03Hash(tag + ".d.MA.Hash"), Height: verifNondetU64(tag + ".d.MA.Height")}
		d.Address = c03Addr(tag + ".d.Address")
		d.ToAddress = c03Addr(tag + ".d.ToAddress")
		d.Amount = new(big.Int).SetBytes(verifNondetBytes(tag+".d.Amount", 32))
		copy(d.TokenStandard[:], verifNondetBytes(tag+".d.ZTS", 10))
		b.DescendantBlocks = []*nom.AccountBlock{d}
	}
	return b
}

// c03KeyAndSignature: drawn only once the first stage accepted (they are read by the transaction stage only)
func c03KeyAndSignature(b *nom.AccountBlock, tag string) {
	// lengths: none, exact, one short, one long (trailing bytes must not be ignored: they would be a second
	// acceptable variant of the block under the same hash, C13)
	switch verifNondetLen(tag+".len(PublicKey)", 0, 3) {
	case 1:
		b.PublicKey = verifNondetBytes(tag+".PublicKey", 32)
	case 2:
		b.PublicKey = verifNondetBytes(tag+".PublicKey", 31)
	case 3:
		b.PublicKey = verifNondetBytes(tag+".PublicKey", 33)
	}
	switch verifNondetLen(tag+".len(Signature)", 0, 3) {
	case 1:
		b.Signature = verifNondetBytes(tag+".Signature", 64)
	case 2:
		b.Signature = verifNondetBytes(tag+".Signature", 63)
	case 3:
		b.Signature = verifNondetBytes(tag+".Signature", 65)
	}
}

// c03Env: ledger environment for block b.
func c03Env(b *nom.AccountBlock) *c03Chain {
	c := &c03Chain{}
	newMom := func(id types.HashHeight) *c03Momentum {
		return &c03Momentum{id: id, chainID: 1, blocks: map[types.Hash]*nom.AccountBlock{}, confirm: map[types.Hash]uint64{}, accounts: map[types.Address]*c03Account{}}
	}
	if verifNondetBool("node has the acknowledged momentum") {
		c.maID = b.MomentumAcknowledged
		c.maStore = newMom(c.maID)
	}
	c.frontier = newMom(types.HashHeight{Hash: c03Hash("frontier.Hash"), Height: verifNondetU64("frontier.Height")})
	if verifNondetBool("node has the account chain up to the stated predecessor") {
		prev := b.Previous()
		c.accountAddr = b.Address
		c.accountPrev = prev
		a := &c03Account{addr: b.Address, received: map[types.Hash]bool{}}
		if prev.Height >= 1 {
			a.frontier = &nom.AccountBlock{Address: b.Address, Hash: prev.Hash, Height: prev.Height,
				MomentumAcknowledged: types.HashHeight{Height: verifNondetU64("prev.MA.Height")}}
		} else {
			verifAssume(prev == types.ZeroHashHeight, "contract (C14): an account store at height 0 is the empty chain with the zero identifier")
		}
		c.account = a
	}
	// the global frontier account store is only used for error reporting
	gf := &c03Account{addr: b.Address, received: map[types.Hash]bool{}, frontier: &nom.AccountBlock{Height: verifNondetU64("global frontier height")}}
	c.frontier.accounts[b.Address] = gf
	return c
}

func c03BigLt(a *big.Int, bits uint) bool {
	return a.Cmp(new(big.Int).Lsh(big.NewInt(1), bits)) < 0
}

func verifVerify(b *nom.AccountBlock) (bool, error) {
	return walletVerify(b.PublicKey, b.Hash.Bytes(), b.Signature)
}

// cut: the PoW nonce check is C12's obligation; here it is an arbitrary verdict
var c03PoWMemo = map[*nom.AccountBlock]bool{}

func verifModelCheckPoW(block *nom.AccountBlock) bool {
	if v, ok := c03PoWMemo[block]; ok {
		return v
	}
	v := verifNondetBool("PoW nonce valid (decided by C12)")
	c03PoWMemo[block] = v
	return v
}
