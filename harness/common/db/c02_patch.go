//go:build verif

package db

import "bytes"

// VerifC02PatchCanonical: the state-change patch (and therefore its hash, which a momentum commits to) is a function
// of the resulting changes, not of the order or history of the writes that produced them: two views of the same
// parent that received different write sequences (puts, deletes, overwrites, put-after-delete, over 3 keys with
// shared prefixes) but ended with the same last operation per key dump byte-identical patches.
func VerifC02PatchCanonical() {
	parent := NewMemDB()
	if verifNondetBool("parent holds a key") {
		verifAssert(parent.Put(c07Key("parent.key"), c07Val("parent.val")) == nil, "put")
	}
	type last struct {
		touched, deleted bool
		val              []byte
	}
	run := func(tag string) (DB, map[string]last) {
		d := parent.Snapshot()
		ref := map[string]last{}
		n := verifNondetLen(tag+".ops", 0, verifParam("ops", 2))
		for i := 0; i < n; i++ {
			k := c07Key(tag + ".key")
			if verifNondetBool(tag + ".delete") {
				verifAssert(d.Delete(k) == nil, "delete")
				ref[string(k)] = last{touched: true, deleted: true}
			} else {
				v := c07Val(tag + ".val")
				verifAssert(d.Put(k, v) == nil, "put")
				ref[string(k)] = last{touched: true, val: v}
			}
		}
		return d, ref
	}
	d1, r1 := run("a")
	d2, r2 := run("b")
	for _, k := range []string{"a", "ab", "b"} {
		x, y := r1[k], r2[k]
		verifAssume(x.touched == y.touched && x.deleted == y.deleted && bytes.Equal(x.val, y.val), "both views end with the same last operation on every key")
	}
	p1, err1 := d1.Changes()
	p2, err2 := d2.Changes()
	verifAssert(err1 == nil && err2 == nil, "changes readable")
	verifReach("same result reached by different histories", len(r1) > 0)
	verifAssert(bytes.Equal(p1.Dump(), p2.Dump()), "equal resulting changes => byte-identical patch")
	verifAssert(PatchHash(p1) == PatchHash(p2), "equal resulting changes => equal changes hash")
}
