//go:build verif

package db

// Model of the on-disk goleveldb engine used under ldbManager.  Under the symbolic engine the methods of
// *leveldb.DB / *leveldb.Snapshot are redirected (engine overrides, listed in the spec) to the functions below,
// which keep the content in goleveldb's own memdb (executed from its real source).  Contract modelled: ordered
// iteration, snapshot isolation, each Put/Delete is atomic and durable in issue order.  Natively (replay) the real
// goleveldb runs on an in-memory storage.

import (
	lru "github.com/hashicorp/golang-lru"
	"github.com/syndtr/goleveldb/leveldb"
	"github.com/syndtr/goleveldb/leveldb/comparer"
	"github.com/syndtr/goleveldb/leveldb/iterator"
	"github.com/syndtr/goleveldb/leveldb/memdb"
	"github.com/syndtr/goleveldb/leveldb/opt"
	"github.com/syndtr/goleveldb/leveldb/storage"
	"github.com/syndtr/goleveldb/leveldb/util"
)

type verifLdbModel struct {
	mem     *memdb.DB
	writes  int
	crashAt int // number of writes that complete; the next one "crashes" (-1: never)
}

type verifCrash struct{}

var verifLdbs = map[*leveldb.DB]*verifLdbModel{}
var verifSnaps = map[*leveldb.Snapshot]*memdb.DB{}

// verifNewLdb is overridden by verifModelNewLdb under the engine.
func verifNewLdb() *leveldb.DB {
	d, err := leveldb.Open(storage.NewMemStorage(), nil)
	if err != nil {
		panic(err)
	}
	return d
}

func verifModelNewLdb() *leveldb.DB {
	d := new(leveldb.DB)
	verifLdbs[d] = &verifLdbModel{mem: memdb.New(comparer.DefaultComparer, 0), crashAt: -1}
	return d
}

// verifSetCrash arms the crash point (engine only; natively a no-op and crash obligations are not replayed).
func verifSetCrash(d *leveldb.DB, completed int) {
	if m := verifLdbs[d]; m != nil {
		m.writes = 0
		m.crashAt = completed
	}
}

func verifWrites(d *leveldb.DB) int {
	if m := verifLdbs[d]; m != nil {
		return m.writes
	}
	return -1
}

func verifCopyBytes(b []byte) []byte {
	c := make([]byte, len(b))
	copy(c, b)
	return c
}

func verifModelLdbGet(d *leveldb.DB, key []byte, ro *opt.ReadOptions) ([]byte, error) {
	v, err := verifLdbs[d].mem.Get(key)
	if err != nil {
		return nil, leveldb.ErrNotFound
	}
	return verifCopyBytes(v), nil
}
func verifModelLdbHas(d *leveldb.DB, key []byte, ro *opt.ReadOptions) (bool, error) {
	return verifLdbs[d].mem.Contains(key), nil
}
func (m *verifLdbModel) beforeWrite() {
	if m.crashAt >= 0 && m.writes == m.crashAt {
		panic(verifCrash{})
	}
	m.writes++
}
func verifModelLdbPut(d *leveldb.DB, key, value []byte, wo *opt.WriteOptions) error {
	m := verifLdbs[d]
	m.beforeWrite()
	return m.mem.Put(verifCopyBytes(key), verifCopyBytes(value))
}
func verifModelLdbDelete(d *leveldb.DB, key []byte, wo *opt.WriteOptions) error {
	m := verifLdbs[d]
	m.beforeWrite()
	if err := m.mem.Delete(key); err != nil && err != memdb.ErrNotFound {
		return err
	}
	return nil
}

// verifModelLdbWrite: a batch is applied atomically (goleveldb's contract for Write): one crash point.
func verifModelLdbWrite(d *leveldb.DB, batch *leveldb.Batch, wo *opt.WriteOptions) error {
	m := verifLdbs[d]
	m.beforeWrite()
	return batch.Replay(&verifBatchApplier{m.mem})
}

type verifBatchApplier struct{ mem *memdb.DB }

func (a *verifBatchApplier) Put(key, value []byte) {
	a.mem.Put(verifCopyBytes(key), verifCopyBytes(value))
}
func (a *verifBatchApplier) Delete(key []byte) { a.mem.Delete(key) }

func verifModelLdbNewIterator(d *leveldb.DB, slice *util.Range, ro *opt.ReadOptions) iterator.Iterator {
	return verifLdbs[d].mem.NewIterator(slice)
}
func verifModelLdbGetSnapshot(d *leveldb.DB) (*leveldb.Snapshot, error) {
	src := verifLdbs[d].mem
	cp := memdb.New(comparer.DefaultComparer, 0)
	it := src.NewIterator(nil)
	for it.Next() {
		cp.Put(verifCopyBytes(it.Key()), verifCopyBytes(it.Value()))
	}
	it.Release()
	s := new(leveldb.Snapshot)
	verifSnaps[s] = cp
	return s, nil
}
func verifModelLdbClose(d *leveldb.DB) error { return nil }

func verifModelSnapGet(s *leveldb.Snapshot, key []byte, ro *opt.ReadOptions) ([]byte, error) {
	v, err := verifSnaps[s].Get(key)
	if err != nil {
		return nil, leveldb.ErrNotFound
	}
	return verifCopyBytes(v), nil
}
func verifModelSnapHas(s *leveldb.Snapshot, key []byte, ro *opt.ReadOptions) (bool, error) {
	return verifSnaps[s].Contains(key), nil
}
func verifModelSnapNewIterator(s *leveldb.Snapshot, slice *util.Range, ro *opt.ReadOptions) iterator.Iterator {
	return verifSnaps[s].NewIterator(slice)
}
func verifModelSnapRelease(s *leveldb.Snapshot) {}

// verifNewManager builds the real ldbManager over the given engine ("restart" = a new manager over the same engine).
func verifNewManager(ldb *leveldb.DB) *ldbManager {
	l1, err := lru.New(l1CacheSize)
	if err != nil {
		panic(err)
	}
	l2, err := lru.New(l2CacheSize)
	if err != nil {
		panic(err)
	}
	return &ldbManager{location: "verif", l1Cache: l1, l2Cache: l2, ldb: ldb}
}

// ---- performance cuts for goleveldb's memdb skip list under the engine: node heights are always 1 (the list
// stays ordered and correct, only its search cost changes) and its PRNG is never seeded.
func verifModelRandHeight(p *memdb.DB) int              { return 1 }
func verifModelNewSourceNil(seed int64) verifRandSource { return nil }

type verifRandSource interface {
	Int63() int64
	Seed(seed int64)
}
