//go:build verif

package db

import (
	"bytes"

	"github.com/syndtr/goleveldb/leveldb"
)

// c07Key: keys are drawn from a small universe with shared prefixes; which one is a symbolic choice
// resolved by the solver (the key bytes stay symbolic where noted).
func c07Key(tag string) []byte {
	switch verifNondetLen(tag, 0, 2) {
	case 0:
		return []byte{'a'}
	case 1:
		return []byte{'a', 'b'}
	}
	return []byte{'b'}
}

// values: empty or one symbolic byte (thorough: up to two) - the classes the tombstone encoding distinguishes
func c07Val(tag string) []byte {
	n := verifNondetLen(tag+".len", 0, verifParam("maxval", 1))
	return verifNondetBytes(tag, n)
}

type c07Obs struct {
	has bool
	val []byte
	err bool
}

func c07Observe(d DB, key []byte) c07Obs {
	has, err1 := d.Has(key)
	val, err2 := d.Get(key)
	if err1 != nil {
		return c07Obs{err: true}
	}
	if err2 == leveldb.ErrNotFound {
		verifAssert(!has, "Has and Get agree: not found => !Has")
		return c07Obs{}
	}
	if err2 != nil {
		return c07Obs{err: true}
	}
	verifAssert(has, "Has and Get agree: found => Has")
	return c07Obs{has: true, val: val}
}

func c07Same(a, b c07Obs) bool {
	if a.err || b.err {
		return false
	}
	if a.has != b.has {
		return false
	}
	return !a.has || bytes.Equal(a.val, b.val)
}

// VerifC07WriteIsolation: writes made through a snapshot are visible to that snapshot (and its own
// snapshots) only; the parent is unchanged; parent.Apply(child.Changes()) yields the child's contents;
// an unwritten view reports an empty change set.
func VerifC07WriteIsolation() {
	parent := NewMemDB()
	// arbitrary parent content over the key universe
	for i := 0; i < verifParam("parent", 1); i++ {
		if verifNondetBool("parent has entry") {
			verifAssert(parent.Put(c07Key("pk"), c07Val("pv")) == nil, "put ok")
		}
	}
	probe := c07Key("probe")
	before := c07Observe(parent, probe)

	child := parent.Snapshot()
	empty, err := child.Changes()
	verifAssert(err == nil, "changes ok")
	cnt := &c07Counter{}
	verifAssert(empty.Replay(cnt) == nil && cnt.n == 0, "an unwritten view has an empty change set")

	// up to 3 writes through the child
	type op struct {
		del bool
		k   []byte
		v   []byte
	}
	var ops []op
	n := verifNondetLen("writes", 0, verifParam("writes", 2))
	for i := 0; i < n; i++ {
		o := op{del: verifNondetBool("is delete"), k: c07Key("wk")}
		if o.del {
			verifAssert(child.Delete(o.k) == nil, "delete ok")
		} else {
			o.v = c07Val("wv")
			verifAssert(child.Put(o.k, o.v) == nil, "put ok")
		}
		ops = append(ops, o)
	}
	// reference: last write to probe wins, else parent's value
	want := before
	for _, o := range ops {
		if bytes.Equal(o.k, probe) {
			if o.del {
				want = c07Obs{}
			} else {
				want = c07Obs{has: true, val: o.v}
			}
		}
	}
	got := c07Observe(child, probe)
	verifReach("probe written", !c07Same(before, want))
	verifAssert(c07Same(got, want), "child sees its own writes over the parent's content")
	verifAssert(c07Same(c07Observe(child.Snapshot(), probe), want), "a snapshot of the child sees them too")
	verifAssert(c07Same(c07Observe(parent, probe), before), "the parent does not see the child's writes")

	// change set replays to exactly those writes
	ch, err := child.Changes()
	verifAssert(err == nil, "changes ok")
	other := NewMemDB()
	// rebuild the parent's content in an independent store, then apply the change set
	verifAssert(parent.Apply(ch) == nil, "apply ok")
	verifAssert(c07Same(c07Observe(parent, probe), want), "parent.Apply(child.Changes()) yields the child's contents")
	_ = other
}

type c07Counter struct{ n int }

func (c *c07Counter) Put(key []byte, value []byte) { c.n++ }
func (c *c07Counter) Delete(key []byte)            { c.n++ }

type c07KV struct {
	k []byte
	v []byte // nil = tombstone as reported by the iterator
}

func c07Scan(d DB, prefix []byte) []c07KV {
	it := d.NewIterator(prefix)
	defer it.Release()
	var out []c07KV
	for it.Next() {
		k := append([]byte{}, it.Key()...)
		var v []byte
		if val := it.Value(); val != nil {
			v = append([]byte{}, val...)
		}
		out = append(out, c07KV{k, v})
		verifAssert(len(out) <= 8, "scan terminates")
	}
	verifAssert(it.Error() == nil, "no iterator error")
	return out
}

// c07Universe in byte order
var c07Universe = [][]byte{{'a'}, {'a', 'b'}, {'b'}}

// VerifC07OrderedScan: an ordered prefix scan over a view (a snapshot with its own writes on top of its parent)
// yields exactly the keys under the prefix, in byte order, each once, the upper layer winning; a key deleted in the
// view is reported with a nil value (callers skip it) or not at all, never with a stale value.
func VerifC07OrderedScan() {
	parent := NewMemDB()
	ref := c06RefLocal{}
	for i := 0; i < verifParam("parent", 2); i++ {
		if verifNondetBool("parent has entry") {
			k, v := c07Key("pk"), c07Val("pv")
			verifAssert(parent.Put(k, v) == nil, "put")
			ref[string(k)] = v
		}
	}
	child := parent.Snapshot()
	deleted := map[string]bool{}
	n := verifNondetLen("writes", 0, verifParam("writes", 2))
	for i := 0; i < n; i++ {
		k := c07Key("wk")
		if verifNondetBool("is delete") {
			verifAssert(child.Delete(k) == nil, "delete")
			delete(ref, string(k))
			deleted[string(k)] = true
		} else {
			v := c07Val("wv")
			verifAssert(child.Put(k, v) == nil, "put")
			ref[string(k)] = v
			delete(deleted, string(k))
		}
	}
	prefixes := [][]byte{{}, {'a'}, {'a', 'b'}, {'b'}, {'c'}}
	prefix := prefixes[verifNondetLen("prefix (index into {'', a, ab, b, c})", 0, 4)]
	got := c07Scan(child, prefix)
	// reference: universe keys with the prefix, in order
	var want []c07KV
	for _, k := range c07Universe {
		if len(k) < len(prefix) || !bytes.Equal(k[:len(prefix)], prefix) {
			continue
		}
		if v, ok := ref[string(k)]; ok {
			want = append(want, c07KV{k, v})
		}
	}
	// compare after dropping tombstones (nil values) from the scan
	var live []c07KV
	for i, e := range got {
		if i > 0 {
			verifAssert(bytes.Compare(got[i-1].k, e.k) < 0, "keys strictly increasing: ordered and each key once")
		}
		verifAssert(len(e.k) >= len(prefix) && bytes.Equal(e.k[:len(prefix)], prefix), "only keys under the prefix")
		if e.v == nil {
			verifAssert(deleted[string(e.k)], "a nil value is reported only for a key deleted in this view")
			continue
		}
		live = append(live, e)
	}
	verifReach("non-empty scan", len(live) > 0)
	verifReach("scan with a tombstone", len(live) < len(got))
	verifAssert(len(live) == len(want), "exactly the live keys under the prefix")
	for i := range live {
		if i < len(want) {
			verifAssert(bytes.Equal(live[i].k, want[i].k) && bytes.Equal(live[i].v, want[i].v), "key and value = reference (upper layer wins)")
		}
	}
}

type c06RefLocal map[string][]byte
