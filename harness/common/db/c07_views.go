//go:build verif

package db

import (
	"bytes"

	"github.com/syndtr/goleveldb/leveldb"
)

// c07Key: keys are drawn from a small universe with shared prefixes; which one is a symbolic choice
// resolved by the solver (the key bytes stay symbolic where noted).
func c07Key(tag string) []byte {
	switch verifNondetLen(tag, 0, 2) {
	case 0:
		return []byte{'a'}
	case 1:
		return []byte{'a', 'b'}
	}
	return []byte{'b'}
}

// values: empty or one symbolic byte (thorough: up to two) - the classes the tombstone encoding distinguishes
func c07Val(tag string) []byte {
	n := verifNondetLen(tag+".len", 0, verifParam("maxval", 1))
	return verifNondetBytes(tag, n)
}

type c07Obs struct {
	has bool
	val []byte
	err bool
}

func c07Observe(d DB, key []byte) c07Obs {
	has, err1 := d.Has(key)
	val, err2 := d.Get(key)
	if err1 != nil {
		return c07Obs{err: true}
	}
	if err2 == leveldb.ErrNotFound {
		verifAssert(!has, "Has and Get agree: not found => !Has")
		return c07Obs{}
	}
	if err2 != nil {
		return c07Obs{err: true}
	}
	verifAssert(has, "Has and Get agree: found => Has")
	return c07Obs{has: true, val: val}
}

func c07Same(a, b c07Obs) bool {
	if a.err || b.err {
		return false
	}
	if a.has != b.has {
		return false
	}
	return !a.has || bytes.Equal(a.val, b.val)
}

// VerifC07WriteIsolation: writes made through a snapshot are visible to that snapshot (and its own
// snapshots) only; the parent is unchanged; parent.Apply(child.Changes()) yields the child's contents;
// an unwritten view reports an empty change set.
func VerifC07WriteIsolation() {
	parent := NewMemDB()
	// arbitrary parent content over the key universe
	for i := 0; i < verifParam("parent", 1); i++ {
		if verifNondetBool("parent has entry") {
			verifAssert(parent.Put(c07Key("pk"), c07Val("pv")) == nil, "put ok")
		}
	}
	probe := c07Key("probe")
	before := c07Observe(parent, probe)

	child := parent.Snapshot()
	empty, err := child.Changes()
	verifAssert(err == nil, "changes ok")
	cnt := &c07Counter{}
	verifAssert(empty.Replay(cnt) == nil && cnt.n == 0, "an unwritten view has an empty change set")

	// up to 3 writes through the child
	type op struct {
		del bool
		k   []byte
		v   []byte
	}
	var ops []op
	n := verifNondetLen("writes", 0, verifParam("writes", 2))
	for i := 0; i < n; i++ {
		o := op{del: verifNondetBool("is delete"), k: c07Key("wk")}
		if o.del {
			verifAssert(child.Delete(o.k) == nil, "delete ok")
		} else {
			o.v = c07Val("wv")
			verifAssert(child.Put(o.k, o.v) == nil, "put ok")
		}
		ops = append(ops, o)
	}
	// reference: last write to probe wins, else parent's value
	want := before
	for _, o := range ops {
		if bytes.Equal(o.k, probe) {
			if o.del {
				want = c07Obs{}
			} else {
				want = c07Obs{has: true, val: o.v}
			}
		}
	}
	got := c07Observe(child, probe)
	verifReach("probe written", !c07Same(before, want))
	verifAssert(c07Same(got, want), "child sees its own writes over the parent's content")
	verifAssert(c07Same(c07Observe(child.Snapshot(), probe), want), "a snapshot of the child sees them too")
	verifAssert(c07Same(c07Observe(parent, probe), before), "the parent does not see the child's writes")

	// change set replays to exactly those writes
	ch, err := child.Changes()
	verifAssert(err == nil, "changes ok")
	other := NewMemDB()
	// rebuild the parent's content in an independent store, then apply the change set
	verifAssert(parent.Apply(ch) == nil, "apply ok")
	verifAssert(c07Same(c07Observe(parent, probe), want), "parent.Apply(child.Changes()) yields the child's contents")
	_ = other
}

type c07Counter struct{ n int }

func (c *c07Counter) Put(key []byte, value []byte) { c.n++ }
func (c *c07Counter) Delete(key []byte)            { c.n++ }
