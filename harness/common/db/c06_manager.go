//go:build verif

package db

import (
	"bytes"

	"github.com/syndtr/goleveldb/leveldb"

	"github.com/zenon-network/go-zenon/common"
	"github.com/zenon-network/go-zenon/common/types"
)

// ---- cut: protobuf (reflection) round trip of HashHeight is trusted; modelled by a fixed 40-byte layout
func verifModelHHSerialize(b *types.HashHeight) []byte {
	return common.JoinBytes(b.Hash.Bytes(), common.Uint64ToBytes(b.Height))
}
func verifModelHHDeserialize(data []byte) (*types.HashHeight, error) {
	if len(data) != 40 {
		return nil, leveldb.ErrNotFound
	}
	hh := &types.HashHeight{Height: common.BytesToUint64(data[32:])}
	copy(hh.Hash[:], data[:32])
	return hh, nil
}

// ---- commits / transactions with concrete identifiers and symbolic content
type c06Commit struct {
	id, prev types.HashHeight
}

func (c *c06Commit) Identifier() types.HashHeight { return c.id }
func (c *c06Commit) Previous() types.HashHeight   { return c.prev }
func (c *c06Commit) Serialize() ([]byte, error)   { return []byte{byte(c.id.Height), c.id.Hash[0]}, nil }

type c06Tx struct {
	c *c06Commit
	p Patch
}

func (t *c06Tx) GetCommits() []Commit { return []Commit{t.c} }
func (t *c06Tx) StealChanges() Patch {
	p := t.p
	t.p = nil
	return p
}

func c06ID(tag byte, height uint64) types.HashHeight {
	var h types.Hash
	h[0] = tag
	h[31] = byte(height)
	return types.HashHeight{Hash: h, Height: height}
}

type c06Op struct {
	del bool
	k   []byte
	v   []byte
}

// c06Ops: up to n symbolic user operations over the key universe of c07Key
func c06Ops(tag string, n int) []c06Op {
	cnt := verifNondetLen(tag+".ops", 0, n)
	var ops []c06Op
	for i := 0; i < cnt; i++ {
		o := c06Op{del: verifNondetBool(tag + ".del"), k: c07Key(tag + ".k")}
		if !o.del {
			o.v = c07Val(tag + ".v")
		}
		ops = append(ops, o)
	}
	return ops
}

func c06Patch(ops []c06Op) Patch {
	p := NewPatch()
	for _, o := range ops {
		if o.del {
			p.Delete(o.k)
		} else {
			p.Put(o.k, o.v)
		}
	}
	return p
}

// reference state: a plain map from key (as string) to value; absent = not in map
type c06Ref map[string][]byte

func (r c06Ref) clone() c06Ref {
	c := c06Ref{}
	for k, v := range r {
		c[k] = v
	}
	return c
}
func (r c06Ref) apply(ops []c06Op) c06Ref {
	c := r.clone()
	for _, o := range ops {
		if o.del {
			delete(c, string(o.k))
		} else {
			c[string(o.k)] = o.v
		}
	}
	return c
}
func (r c06Ref) obs(key []byte) c07Obs {
	v, ok := r[string(key)]
	if !ok {
		return c07Obs{}
	}
	return c07Obs{has: true, val: v}
}

func c06Add(m Manager, id, prev types.HashHeight, ops []c06Op) error {
	return m.Add(&c06Tx{c: &c06Commit{id: id, prev: prev}, p: c06Patch(ops)})
}

// VerifC06RollbackInverse: Apply(P) followed by Apply(RollbackPatch(S,P)) restores the observable state of
// every key (probe), whatever P does to it (puts, deletes, duplicates, empty values).
func VerifC06RollbackInverse() {
	d := NewMemDB()
	for i := 0; i < verifParam("pre", 1); i++ {
		if verifNondetBool("pre-state has entry") {
			verifAssert(d.Put(c07Key("sk"), c07Val("sv")) == nil, "put ok")
		}
	}
	probe := c07Key("probe")
	before := c07Observe(d, probe)
	ops := c06Ops("P", verifParam("ops", 3))
	p := c06Patch(ops)
	rb := RollbackPatch(d, p)
	verifAssert(ApplyPatch(d, p) == nil, "apply ok")
	mid := c07Observe(d, probe)
	verifReach("patch changed probe", !c07Same(before, mid))
	verifAssert(ApplyPatch(d, rb) == nil, "rollback apply ok")
	verifAssert(c07Same(c07Observe(d, probe), before), "rollback restores the state before the patch, for every key")
}

// VerifC07CommitOnlyOnFrontier: a commit whose parent is not the current frontier (an older ancestor, or
// unknown) is refused with an error and leaves the store unchanged.
func VerifC07CommitOnlyOnFrontier() {
	ldb := verifNewLdb()
	m := verifNewManager(ldb)
	G, A, X := c06ID(1, 1), c06ID(2, 2), c06ID(3, 2)
	ref := c06Ref{}
	opsG := c06Ops("G", 1)
	verifAssert(c06Add(m, G, types.ZeroHashHeight, opsG) == nil, "genesis commit accepted")
	ref = ref.apply(opsG)
	opsA := c06Ops("A", 1)
	verifAssert(c06Add(m, A, G, opsA) == nil, "commit on the frontier accepted")
	ref = ref.apply(opsA)
	verifAssert(GetFrontierIdentifier(m.Frontier()) == A, "frontier advanced")

	probe := c07Key("probe")
	before := c07Observe(m.Frontier(), probe)
	verifAssert(c07Same(before, ref.obs(probe)), "frontier view = reference")

	stale := verifNondetBool("stale parent (else unknown parent)")
	parent := G
	if !stale {
		parent = c06ID(9, 1)
	}
	w0 := verifWrites(ldb)
	err := c06Add(m, X, parent, c06Ops("X", 1))
	verifReach("stale", stale)
	verifReach("unknown", !stale)
	verifAssertKnown(err != nil, "a commit on a non-frontier parent is refused", stale, "C07-F5")
	verifAssertKnown(GetFrontierIdentifier(m.Frontier()) == A, "frontier unchanged by a refused commit", stale, "C07-F5")
	verifAssertKnown(c07Same(c07Observe(m.Frontier(), probe), before), "no key changed by a refused commit", stale, "C07-F5")
	if w0 >= 0 {
		verifAssertKnown(verifWrites(ldb) == w0, "no write reached the database", stale, "C07-F5")
	}
}

// VerifC07HistoricalPointReads: a view opened at commit G answers Get/Has for every key with the state as of G,
// whatever later commits did to the key (untouched / overwritten / deleted / created).
func VerifC07HistoricalPointReads() {
	ldb := verifNewLdb()
	m := verifNewManager(ldb)
	ids := []types.HashHeight{c06ID(1, 1), c06ID(2, 2), c06ID(3, 3), c06ID(4, 4)}
	opsG := c06Ops("G", 1)
	verifAssert(c06Add(m, ids[0], types.ZeroHashHeight, opsG) == nil, "genesis commit")
	atG := c06Ref{}.apply(opsG)
	later := verifNondetLen("later commits", 1, verifParam("later", 2))
	created, touched := false, false
	probe := c07Key("probe")
	cur := atG
	for i := 1; i <= later; i++ {
		ops := c06Ops("C", 1)
		verifAssert(c06Add(m, ids[i], ids[i-1], ops) == nil, "commit on frontier")
		cur = cur.apply(ops)
		for _, o := range ops {
			if bytes.Equal(o.k, probe) {
				touched = true
			}
		}
	}
	if !atG.obs(probe).has && cur.obs(probe).has {
		created = true
	}
	view := m.Get(ids[0])
	verifAssert(view != nil, "a view of a known commit exists")
	got := c07Observe(view, probe)
	verifReach("key created after G", created)
	verifReach("key changed after G", !c07Same(atG.obs(probe), cur.obs(probe)))
	// F6 region: the key did not exist at G and was written by a later commit (its state at the frontier does not matter)
	writtenLater := !atG.obs(probe).has && touched
	verifAssertKnown(c07Same(got, atG.obs(probe)), "historical view returns the state as of its commit", writtenLater, "C07-F6")
	verifAssert(c07Same(c07Observe(m.Frontier(), probe), cur.obs(probe)), "frontier view returns the latest state")
}

// VerifC06BranchSwitch: after abandoning a branch (Pop) and adopting another, every view the store serves -
// the frontier and the view of the common ancestor, whether or not it was requested (and cached) before the switch -
// equals the state of a reference node that only ever saw the adopted branch.
func VerifC06BranchSwitch() {
	ldb := verifNewLdb()
	m := verifNewManager(ldb)
	G := c06ID(1, 1)
	A2, A3 := c06ID(2, 2), c06ID(3, 3)
	B2, B3 := c06ID(4, 2), c06ID(5, 3)
	depth := verifNondetLen("fork depth", 1, verifParam("depth", 2))

	opsG := c06Ops("G", 1)
	verifAssert(c06Add(m, G, types.ZeroHashHeight, opsG) == nil, "genesis commit")
	atG := c06Ref{}.apply(opsG)
	probe := c07Key("probe")

	// old branch
	verifAssert(c06Add(m, A2, G, c06Ops("A2", 1)) == nil, "A2")
	if depth == 2 {
		verifAssert(c06Add(m, A3, A2, c06Ops("A3", 1)) == nil, "A3")
	}
	viewedBefore := verifNondetBool("ancestor view requested before the switch")
	if viewedBefore {
		v := m.Get(G)
		verifAssert(v != nil, "ancestor view exists")
		verifAssertKnown(c07Same(c07Observe(v, probe), atG.obs(probe)), "ancestor view before the switch = state at the ancestor", !atG.obs(probe).has, "C07-F6")
	}
	// switch
	for i := 0; i < depth; i++ {
		verifAssert(m.Pop() == nil, "pop ok")
	}
	verifAssert(GetFrontierIdentifier(m.Frontier()) == G, "frontier is the common ancestor after rolling back")
	verifAssert(c07Same(c07Observe(m.Frontier(), probe), atG.obs(probe)), "rollback restored the ancestor's state for every key")
	opsB2 := c06Ops("B2", 1)
	verifAssert(c06Add(m, B2, G, opsB2) == nil, "B2")
	ref := atG.apply(opsB2)
	if depth == 2 {
		opsB3 := c06Ops("B3", 1)
		verifAssert(c06Add(m, B3, B2, opsB3) == nil, "B3")
		ref = ref.apply(opsB3)
	}
	verifReach("switched", true)
	verifAssert(c07Same(c07Observe(m.Frontier(), probe), ref.obs(probe)), "frontier after the switch = reference node on the adopted branch")
	v := m.Get(G)
	verifAssert(v != nil, "ancestor view exists after the switch")
	// known regions: F6 (key absent at the ancestor) is C07's finding; F7 = stale rollbackCache when the view was requested before the switch
	verifAssertKnown(c07Same(c07Observe(v, probe), atG.obs(probe)), "ancestor view after the switch = state at the ancestor (no trace of the abandoned branch)",
		!atG.obs(probe).has || viewedBefore, c06Tag(!atG.obs(probe).has))
	verifAssert(m.Get(A2) == nil, "views of the abandoned branch are no longer served")
}

func c06Tag(absent bool) string {
	if absent {
		return "C07-F6"
	}
	return "C06-F7"
}

// VerifC06AddPopRoundTrip: Add followed by Pop restores frontier pointer, bookkeeping records and every key.
func VerifC06AddPopRoundTrip() {
	ldb := verifNewLdb()
	m := verifNewManager(ldb)
	G, A := c06ID(1, 1), c06ID(2, 2)
	opsG := c06Ops("G", verifParam("gops", 1))
	verifAssert(c06Add(m, G, types.ZeroHashHeight, opsG) == nil, "genesis commit")
	atG := c06Ref{}.apply(opsG)
	probe := c07Key("probe")
	verifAssert(c06Add(m, A, G, c06Ops("A", verifParam("aops", 2))) == nil, "A")
	verifAssert(m.GetPatch(A) != nil, "redo record stored")
	verifAssert(m.Pop() == nil, "pop ok")
	f := m.Frontier()
	verifReach("popped", true)
	verifAssert(GetFrontierIdentifier(f) == G, "frontier pointer restored")
	verifAssert(c07Same(c07Observe(f, probe), atG.obs(probe)), "every key restored")
	verifAssert(m.GetPatch(A) == nil, "redo record of the popped commit removed")
	_, err := GetIdentifierByHash(f, A.Hash)
	verifAssert(err == leveldb.ErrNotFound, "height-by-hash of the popped commit removed")
	_, err = GetEntryByHeight(f, 2)
	verifAssert(err == leveldb.ErrNotFound, "entry-by-height of the popped commit removed")
	id, err := GetIdentifierByHash(f, G.Hash)
	verifAssert(err == nil && *id == G, "bookkeeping of the remaining commit intact")
}

// VerifC08CrashDuringCommit: the process may die between any two database writes of Add; after restart the store
// is exactly the state before or exactly the state after the commit (frontier pointer, bookkeeping, every key).
func VerifC08CrashDuringCommit() {
	ldb := verifNewLdb()
	m := verifNewManager(ldb)
	G, A := c06ID(1, 1), c06ID(2, 2)
	opsG := c06Ops("G", 1)
	verifAssert(c06Add(m, G, types.ZeroHashHeight, opsG) == nil, "genesis commit")
	atG := c06Ref{}.apply(opsG)
	opsA := c06Ops("A", verifParam("ops", 2))
	atA := atG.apply(opsA)
	probe := c07Key("probe")

	// crash after k completed writes, k in [0, 8]; k beyond the number of writes of this commit = no crash
	k := verifNondetLen("crash after k writes", 0, 8)
	verifSetCrash(ldb, k)
	crashed := c08Run(func() { verifAssert(c06Add(m, A, G, opsA) == nil, "A") })
	verifSetCrash(ldb, -1)

	// restart: fresh manager (empty caches) over the same durable state
	m2 := verifNewManager(ldb)
	f := m2.Frontier()
	id := GetFrontierIdentifier(f)
	got := c07Observe(f, probe)
	verifReach("crashed mid-commit", crashed && k > 0)
	verifReach("completed", !crashed)
	beforeOK := id == G && c07Same(got, atG.obs(probe)) && m2.GetPatch(A) == nil
	afterOK := id == A && c07Same(got, atA.obs(probe)) && m2.GetPatch(A) != nil
	verifAssertKnown(beforeOK || afterOK, "after a crash during commit the store is the state before or the state after", crashed && k > 0, "C08-F8")
	if !crashed {
		verifAssert(afterOK, "a completed commit is durable")
	}
	if crashed && k == 0 {
		verifAssert(beforeOK, "a crash before the first write leaves the state before")
	}
	if crashed && id == A {
		// however torn the commit is (F8): once the new frontier is visible its undo and redo records are durable
		// (they are written before the first data key), so the torn commit can be rolled back to exactly the state before
		verifReach("crashed with the new frontier visible", true)
		verifAssert(m2.GetPatch(A) != nil, "a visible frontier has its redo record")
		verifAssert(m2.Pop() == nil, "a visible frontier can be rolled back")
		m3 := verifNewManager(ldb)
		f3 := m3.Frontier()
		verifAssert(GetFrontierIdentifier(f3) == G && c07Same(c07Observe(f3, probe), atG.obs(probe)) && m3.GetPatch(A) == nil, "rolling back a torn commit restores exactly the state before")
	}
}

func c08Run(f func()) (crashed bool) {
	defer func() {
		if r := recover(); r != nil {
			if _, ok := r.(verifCrash); ok {
				crashed = true
				return
			}
			panic(r)
		}
	}()
	f()
	return false
}

// VerifC08CrashDuringRollback: same for Pop.
func VerifC08CrashDuringRollback() {
	ldb := verifNewLdb()
	m := verifNewManager(ldb)
	G, A := c06ID(1, 1), c06ID(2, 2)
	opsG := c06Ops("G", 1)
	verifAssert(c06Add(m, G, types.ZeroHashHeight, opsG) == nil, "genesis commit")
	atG := c06Ref{}.apply(opsG)
	opsA := c06Ops("A", verifParam("ops", 2))
	atA := atG.apply(opsA)
	verifAssert(c06Add(m, A, G, opsA) == nil, "A")
	probe := c07Key("probe")

	k := verifNondetLen("crash after k writes", 0, 8)
	verifSetCrash(ldb, k)
	crashed := c08Run(func() { verifAssert(m.Pop() == nil, "pop") })
	verifSetCrash(ldb, -1)

	m2 := verifNewManager(ldb)
	f := m2.Frontier()
	id := GetFrontierIdentifier(f)
	got := c07Observe(f, probe)
	verifReach("crashed mid-rollback", crashed && k > 0)
	verifReach("completed", !crashed)
	beforeOK := id == A && c07Same(got, atA.obs(probe)) && m2.GetPatch(A) != nil
	afterOK := id == G && c07Same(got, atG.obs(probe)) && m2.GetPatch(A) == nil
	verifAssertKnown(beforeOK || afterOK, "after a crash during rollback the store is the state before or the state after", crashed && k > 0, "C08-F8")
	if !crashed {
		verifAssert(afterOK, "a completed rollback is durable")
	}
}

// VerifC07HistoricalOrderedScan: an ordered prefix scan over the view of commit G after 1..2 later commits yields
// exactly the keys that existed at G under the prefix, in byte order, each once, with their values as of G.
// Regions of known findings: a key with an EMPTY value at G (dropped from historical scans, F20).
func VerifC07HistoricalOrderedScan() {
	ldb := verifNewLdb()
	m := verifNewManager(ldb)
	ids := []types.HashHeight{c06ID(1, 1), c06ID(2, 2), c06ID(3, 3)}
	opsG := c06Ops("G", verifParam("gops", 2))
	verifAssert(c06Add(m, ids[0], types.ZeroHashHeight, opsG) == nil, "genesis commit")
	atG := c06Ref{}.apply(opsG)
	later := verifNondetLen("later commits", 1, verifParam("later", 2))
	for i := 1; i <= later; i++ {
		verifAssert(c06Add(m, ids[i], ids[i-1], c06Ops("C", 1)) == nil, "commit on frontier")
	}
	view := m.Get(ids[0])
	verifAssert(view != nil, "a view of a known commit exists")
	// (the empty prefix would also list the store's own frontier bookkeeping keys)
	prefixes := [][]byte{{'a'}, {'a', 'b'}, {'b'}}
	prefix := prefixes[verifNondetLen("prefix (index into {a, ab, b})", 0, 2)]
	got := c07Scan(view, prefix)
	var want []c07KV
	emptyAtG := false
	for _, k := range c07Universe {
		if len(k) < len(prefix) || !bytes.Equal(k[:len(prefix)], prefix) {
			continue
		}
		if o := atG.obs(k); o.has {
			want = append(want, c07KV{k, o.val})
			if len(o.val) == 0 {
				emptyAtG = true
			}
		}
	}
	var live []c07KV
	for i, e := range got {
		if i > 0 {
			verifAssert(bytes.Compare(got[i-1].k, e.k) < 0, "keys strictly increasing: ordered and each key once")
		}
		verifAssert(len(e.k) >= len(prefix) && bytes.Equal(e.k[:len(prefix)], prefix), "only keys under the prefix")
		if e.v == nil {
			continue // tombstone entries are skipped by callers
		}
		live = append(live, e)
	}
	verifReach("non-empty historical scan", len(live) > 0)
	same := len(live) == len(want)
	if same {
		for i := range live {
			if !bytes.Equal(live[i].k, want[i].k) || !bytes.Equal(live[i].v, want[i].v) {
				same = false
			}
		}
	}
	verifAssertKnown(same, "a historical scan yields exactly the keys and values as of its commit", emptyAtG, "C07-F20")
}
