//go:build verif

package wallet

// Cryptography is NOT checked: every primitive is replaced (engine overrides) by an idealised model built on one
// collision-free uninterpreted hash (verifHash).  What the obligations decide is the plumbing around the primitives:
// that key, salt, nonce, additional data, entropy, indices and messages flow into both directions consistently.

import (
	"crypto/cipher"
	"crypto/ed25519"
	"errors"
	"hash"
	"io"
)

func c19H(tag string, parts ...[]byte) []byte {
	var data []byte
	for _, p := range parts {
		data = append(data, byte(len(p)))
		data = append(data, p...)
	}
	h := verifHash(tag, data)
	return h[:]
}

func c19H64(tag string, parts ...[]byte) []byte {
	return append(c19H(tag+"/0", parts...), c19H(tag+"/1", parts...)...)
}

// argon2id: a collision-free function of (password, salt); cost parameters must be the documented constants
func verifModelArgon2(password, salt []byte, time, memory uint32, threads uint8, keyLen uint32) []byte {
	verifAssert(time == 1 && memory == 64*1024 && threads == 4 && keyLen == 32, "argon2id parameters are the same constants in both directions")
	return c19H("argon2id", password, salt)
}

func verifModelCSPRNG(n int) []byte { return verifNondetBytes("csprng", n) }

// AES-256-GCM as an ideal AEAD: ciphertext = plaintext || tag(key, nonce, ad, plaintext); the tag is a full
// 32-byte digest (a truncated digest is not collision-free in the model: the solver would pick a collision)
type c19Block struct{ key []byte }

func (b *c19Block) BlockSize() int          { return 16 }
func (b *c19Block) Encrypt(dst, src []byte) {}
func (b *c19Block) Decrypt(dst, src []byte) {}

func verifModelNewCipher(key []byte) (cipher.Block, error) {
	if len(key) != 32 {
		return nil, errors.New("aes: invalid key size")
	}
	return &c19Block{key: append([]byte{}, key...)}, nil
}

type c19AEAD struct{ key []byte }

func (a *c19AEAD) NonceSize() int { return 12 }
func (a *c19AEAD) Overhead() int  { return 32 }
func (a *c19AEAD) Seal(dst, nonce, plaintext, ad []byte) []byte {
	tag := c19H("gcm-tag", a.key, nonce, ad, plaintext)
	return append(append(dst, plaintext...), tag...)
}
func (a *c19AEAD) Open(dst, nonce, ciphertext, ad []byte) ([]byte, error) {
	if len(nonce) != 12 {
		// crypto/cipher's GCM: "The nonce must be NonceSize() bytes long" - the real implementation panics
		panic("crypto/cipher: incorrect nonce length given to GCM")
	}
	if len(ciphertext) < 32 {
		return nil, errors.New("cipher: message authentication failed")
	}
	pt := ciphertext[:len(ciphertext)-32]
	tag := c19H("gcm-tag", a.key, nonce, ad, pt)
	for i := range tag {
		if tag[i] != ciphertext[len(pt)+i] {
			return nil, errors.New("cipher: message authentication failed")
		}
	}
	return append(dst, pt...), nil
}
func verifModelNewGCM(b cipher.Block) (cipher.AEAD, error) {
	return &c19AEAD{key: b.(*c19Block).key}, nil
}

// bip39: mnemonic and seed are collision-free functions of the entropy / (mnemonic, passphrase)
func verifModelNewMnemonic(entropy []byte) (string, error) {
	if len(entropy) != 16 && len(entropy) != 32 {
		return "", errors.New("bip39: invalid entropy length")
	}
	return "mnemonic:" + string(entropy), nil
}
func verifModelNewSeed(mnemonic, passphrase string) []byte {
	return c19H64("bip39-seed", []byte(mnemonic), []byte(passphrase))
}

// HMAC-SHA512
type c19Hmac struct{ key, data []byte }

func (h *c19Hmac) Write(p []byte) (int, error) { h.data = append(h.data, p...); return len(p), nil }
func (h *c19Hmac) Sum(b []byte) []byte         { return append(b, c19H64("hmac-sha512", h.key, h.data)...) }
func (h *c19Hmac) Reset()                      { h.data = nil }
func (h *c19Hmac) Size() int                   { return 64 }
func (h *c19Hmac) BlockSize() int              { return 128 }
func verifModelHmacNew(f func() hash.Hash, key []byte) hash.Hash {
	return &c19Hmac{key: append([]byte{}, key...)}
}

// ed25519: public key = f(seed); a signature is a MAC under the public key (binding only, no unforgeability claim)
func verifModelGenerateKey(r io.Reader) (ed25519.PublicKey, ed25519.PrivateKey, error) {
	seed := make([]byte, 32)
	if _, err := io.ReadFull(r, seed); err != nil {
		return nil, nil, err
	}
	pub := c19H("ed25519-pub", seed)
	return ed25519.PublicKey(pub), ed25519.PrivateKey(append(seed, pub...)), nil
}
func verifModelSign(priv ed25519.PrivateKey, msg []byte) []byte {
	return c19H64("ed25519-sig", priv[32:], msg)
}
func verifModelVerify(pub ed25519.PublicKey, msg, sig []byte) bool {
	if len(pub) != 32 {
		panic("ed25519: bad public key length")
	}
	want := c19H64("ed25519-sig", pub, msg)
	if len(sig) != 64 {
		return false
	}
	for i := range want {
		if want[i] != sig[i] {
			return false
		}
	}
	return true
}
