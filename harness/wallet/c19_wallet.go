//go:build verif

package wallet

import (
	"bytes"

	"github.com/zenon-network/go-zenon/common/types"
)

func c19Entropy() []byte {
	if verifNondetBool("entropy is 32 bytes (else 16)") {
		return verifNondetBytes("entropy", 32)
	}
	return verifNondetBytes("entropy", 16)
}

// VerifC19EncryptDecrypt: a key file decrypts with its password to exactly the entropy it was created from (same
// mnemonic, seed, base address); the file records the index-0 address; a different password, or a change to the
// ciphertext, the nonce or the salt makes decryption fail with ErrWrongPassword - under the ideal-primitive models.
func VerifC19EncryptDecrypt() {
	entropy := c19Entropy()
	ks, err := keyStoreFromEntropy(entropy)
	verifAssert(err == nil, "key store from valid entropy")
	_, kp0, err := ks.DeriveForIndexPath(0)
	verifAssert(err == nil && ks.BaseAddress == kp0.Address, "base address is the index-0 address")
	// password lengths 0..2 and lengths just past the usual fixed buffer sizes (a staged or truncated password)
	pw := verifNondetString("password", c19PwLen("len(password)"))
	kf, err := ks.Encrypt(pw)
	verifAssert(err == nil && kf.BaseAddress == ks.BaseAddress, "the file records the base address")
	verifAssert(kf.Version == cryptoStoreVersion && kf.Crypto.CipherName == aesMode && kf.Crypto.KDF == argonName, "format tags")

	switch verifNondetLen("scenario (0 same password, 1 other password, 2 ciphertext byte changed, 3 nonce byte changed, 4 salt byte changed, 5 nonce / ciphertext / salt length changed)", 0, 5) {
	case 0:
		ks2, err := kf.Decrypt(pw)
		verifReach("round trip", true)
		verifAssert(err == nil, "the right password decrypts")
		verifAssert(bytes.Equal(ks2.Entropy, entropy) && ks2.Mnemonic == ks.Mnemonic && bytes.Equal(ks2.Seed, ks.Seed) && ks2.BaseAddress == ks.BaseAddress, "exactly the original entropy, mnemonic, seed and base address")
	case 1:
		pw2 := verifNondetString("other password", c19PwLen("len(other password)"))
		verifAssume(pw2 != pw, "a different password")
		_, err := kf.Decrypt(pw2)
		verifReach("wrong password", true)
		verifAssert(err == ErrWrongPassword, "a different password is refused")
	case 2:
		i := verifNondetLen("ciphertext index", 0, len(kf.Crypto.CipherData)-1)
		d := verifNondetU8("xor")
		verifAssume(d != 0, "a real change")
		kf.Crypto.CipherData[i] ^= d
		_, err := kf.Decrypt(pw)
		verifReach("tampered ciphertext", true)
		verifAssert(err == ErrWrongPassword, "a changed ciphertext is refused")
	case 3:
		d := verifNondetU8("xor")
		verifAssume(d != 0, "a real change")
		kf.Crypto.AesNonce[verifNondetLen("nonce index", 0, 11)] ^= d
		_, err := kf.Decrypt(pw)
		verifReach("tampered nonce", true)
		verifAssert(err == ErrWrongPassword, "a changed nonce is refused")
	case 4:
		d := verifNondetU8("xor")
		verifAssume(d != 0, "a real change")
		kf.Crypto.Argon2Params.Salt[verifNondetLen("salt index", 0, 15)] ^= d
		_, err := kf.Decrypt(pw)
		verifReach("tampered salt", true)
		verifAssert(err == ErrWrongPassword, "a changed salt is refused")
	case 5:
		switch verifNondetLen("what is cut or extended (0 nonce cut, 1 nonce extended, 2 ciphertext cut to its tag, 3 ciphertext emptied, 4 salt cut, 5 salt emptied)", 0, 5) {
		case 0:
			kf.Crypto.AesNonce = kf.Crypto.AesNonce[:11]
		case 1:
			kf.Crypto.AesNonce = append(kf.Crypto.AesNonce, verifNondetU8("extra nonce byte"))
		case 2:
			kf.Crypto.CipherData = kf.Crypto.CipherData[len(kf.Crypto.CipherData)-16:]
		case 3:
			kf.Crypto.CipherData = nil
		case 4:
			kf.Crypto.Argon2Params.Salt = kf.Crypto.Argon2Params.Salt[:15]
		case 5:
			kf.Crypto.Argon2Params.Salt = nil
		}
		_, err := kf.Decrypt(pw)
		verifReach("truncated or extended field", true)
		verifAssert(err == ErrWrongPassword, "a key file with a cut or extended nonce, ciphertext or salt is refused (not a crash)")
	}
}

// c19PwLen: 0, 1, 2 or one of `longpw` long lengths (129, 65, 257, 1025: one past a power-of-two buffer size)
func c19PwLen(tag string) int {
	long := []int{129, 65, 257, 1025}
	n := verifNondetLen(tag, 0, 2+verifParam("longpw", 1))
	if n > 2 {
		return long[n-3]
	}
	return n
}

// VerifC19Derivation: child keys are derived on hardened indices only, as HMAC(chain code, 0x00 || key || ser32(i));
// an index below 2^31 is refused; the account path m/44'/73404'/i' is followed exactly; deriving twice gives the same key.
func VerifC19Derivation() {
	k := &key{Key: verifNondetBytes("key", 32), ChainCode: verifNondetBytes("chain code", 32)}
	i := verifNondetU32("index")
	child, err := k.derive(i)
	if i < FirstHardenedIndex {
		verifReach("non-hardened", true)
		verifAssert(err == ErrNoPublicDerivation && child == nil, "no non-hardened child is ever derived")
	} else {
		verifReach("hardened", true)
		verifAssert(err == nil, "hardened derivation succeeds")
		ser := []byte{byte(i >> 24), byte(i >> 16), byte(i >> 8), byte(i)}
		data := append(append([]byte{0}, k.Key...), ser...)
		want := c19H64("hmac-sha512", k.ChainCode, data)
		verifAssert(bytes.Equal(child.Key, want[:32]) && bytes.Equal(child.ChainCode, want[32:]), "child = HMAC-SHA512(chain code, 0x00 || key || ser32(index)) split 32/32")
	}
	// full account path on concrete indices (the path is formatted and parsed as text)
	seed := verifNondetBytes("seed", 64)
	idx := []uint32{0, 1, 0x7fffffff, 0x80000000, 0xffffffff}[verifNondetLen("account index (0,1,2^31-1,2^31,2^32-1)", 0, 4)]
	kp, err := DeriveWithIndex(idx, seed)
	if idx >= FirstHardenedIndex {
		verifAssert(err != nil, "an account index >= 2^31 cannot be hardened and is refused")
		return
	}
	verifAssert(err == nil, "account derivation succeeds")
	m := c19H64("hmac-sha512", []byte(seedModifier), seed)
	cur := &key{Key: m[:32], ChainCode: m[32:]}
	for _, seg := range []uint32{44, 73404, idx} {
		cur, err = cur.derive(seg + FirstHardenedIndex)
		verifAssert(err == nil, "segment")
	}
	want, _ := cur.toKeyPair()
	verifAssert(bytes.Equal(kp.Public, want.Public) && kp.Address == want.Address, "the key pair is the one at m/44'/73404'/index'")
	again, _ := DeriveWithIndex(idx, seed)
	verifAssert(bytes.Equal(again.Private, kp.Private), "derivation is deterministic")
}

// VerifC19SignAndAddress: a signature made with a derived key verifies under its public key (and not under another
// message), and the public key maps to the key pair's address.
func VerifC19SignAndAddress() {
	k := key{Key: verifNondetBytes("key", 32), ChainCode: verifNondetBytes("chain code", 32)}
	kp, err := k.toKeyPair()
	verifAssert(err == nil, "key pair")
	msg := verifNondetBytes("message", 2)
	sig := kp.Sign(msg)
	ok, err := VerifySignature(kp.Public, msg, sig)
	verifReach("signed", true)
	verifAssert(err == nil && ok, "a signature verifies under the signer's public key")
	other := verifNondetBytes("other message", 2)
	if !bytes.Equal(other, msg) {
		ok2, _ := VerifySignature(kp.Public, other, sig)
		verifAssert(!ok2, "and binds the message")
	}
	verifAssert(kp.Address == types.PubKeyToAddress(kp.Public) && kp.Address[0] == types.UserAddrByte, "the address is derived from the public key")
}
