//go:build verif

package vm

import (
	"math/big"

	"github.com/zenon-network/go-zenon/common/types"
	"github.com/zenon-network/go-zenon/vm/constants"
	"github.com/zenon-network/go-zenon/vm/embedded/definition"
)

// VerifC10SentinelCollateral: one Register / Revoke step of the sentinel contract from an arbitrary state with one
// sentinel entry and one QSR deposit: registration locks exactly the ZNN sent (5000) and consumes exactly the QSR
// deposit amount (50000) from the caller's deposit; revocation pays exactly the two locked amounts to the owner, only
// to the owner, only inside the revoke window (days 27..30 of every 30-day cycle since registration), and only once.
func VerifC10SentinelCollateral() {
	e := c09NewEnv(types.SentinelContract)
	// Inv (established by Register, preserved by Revoke): an active sentinel holds exactly the two registration
	// amounts, a revoked one holds 0 — the pre-state ranges over exactly these entries
	E := &definition.SentinelInfo{RegistrationTimestamp: int64(verifNondetU64("entry.RegistrationTimestamp")), ZnnAmount: big.NewInt(0), QsrAmount: big.NewInt(0)}
	if verifNondetBool("entry is active") {
		E.ZnnAmount, E.QsrAmount = new(big.Int).Set(constants.SentinelZnnRegisterAmount), new(big.Int).Set(constants.SentinelQsrDepositAmount)
	} else {
		E.RevokeTimestamp = int64(verifNondetU64("entry.RevokeTimestamp"))
		verifAssume(E.RevokeTimestamp > 0 && E.RevokeTimestamp <= int64(e.mom.ts), "revoked at a past momentum timestamp")
	}
	E.Owner[0] = types.UserAddrByte
	copy(E.Owner[1:], verifNondetBytes("entry.Owner", 19))
	verifAssume(E.RegistrationTimestamp >= 1600000000 && E.RegistrationTimestamp <= int64(e.mom.ts), "registered at a past momentum timestamp")
	hasEntry := verifNondetBool("an entry exists")
	if hasEntry {
		E.Save(e.storage())
	}
	var depositor types.Address
	depositor[0] = types.UserAddrByte
	copy(depositor[1:], verifNondetBytes("deposit.owner", 19))
	D := c01Amount("deposit.qsr")
	verifAssume(D.Cmp(c10Lim) < 0, "amount far below 2^255")
	if D.Sign() > 0 {
		verifAssert((&definition.QsrDeposit{Address: &depositor, Qsr: D}).Save(e.storage()) == nil, "save")
	}
	Bz, Bq := c01Amount("contract znn"), c01Amount("contract qsr")
	lockedZ, lockedQ := big.NewInt(0), new(big.Int).Set(D)
	if hasEntry {
		lockedZ, lockedQ = new(big.Int).Set(E.ZnnAmount), new(big.Int).Add(D, E.QsrAmount)
	}
	verifAssume(Bz.Cmp(lockedZ) >= 0 && Bq.Cmp(lockedQ) >= 0 && Bz.Cmp(c10Lim) < 0 && Bq.Cmp(c10Lim) < 0, "Inv: the contract backs locked ZNN and QSR")
	verifAssert(e.as.SetBalance(types.ZnnTokenStandard, Bz) == nil && e.as.SetBalance(types.QsrTokenStandard, Bq) == nil, "set")

	revoke := verifNondetBool("call is Revoke (else Register)")
	name := definition.RegisterSentinelMethodName
	if revoke {
		name = definition.RevokeSentinelMethodName
	}
	e.c09Send(definition.ABISentinel.PackMethodPanic(name), types.ZnnTokenStandard)
	verifAssume(e.send.Amount.Cmp(c10Lim) < 0, "amount far below 2^255")
	if !e.sendAccepted() {
		verifReach("refused at send time", true)
		return
	}
	o := e.receive()
	e.c09CheckWrapper(o, map[types.ZenonTokenStandard]*big.Int{types.ZnnTokenStandard: Bz, types.QsrTokenStandard: Bq}, 0)
	if o.panicked || o.block == nil {
		return
	}
	now := int64(e.mom.ts)
	var after *definition.SentinelInfo
	if hasEntry {
		after = definition.GetSentinelInfoByOwner(e.storage(), E.Owner)
		verifAssert(after != nil, "entries are never deleted by these methods")
	}
	depAfter, err := definition.GetQsrDeposit(e.storage(), &depositor)
	verifAssert(err == nil, "deposit readable")
	if o.methodErr != nil {
		verifReach("refused", true)
		verifAssert(depAfter.Qsr.Cmp(D) == 0 && (!hasEntry || (after.RevokeTimestamp == E.RevokeTimestamp && after.ZnnAmount.Cmp(E.ZnnAmount) == 0)), "a refused call changes nothing")
		return
	}
	if revoke {
		verifReach("revoked", true)
		d := o.block.DescendantBlocks
		verifAssert(hasEntry && e.send.Address == E.Owner, "only the owner of an existing sentinel revokes it")
		verifAssert(E.RevokeTimestamp == 0, "a sentinel is revoked only once")
		cycle := (now - E.RegistrationTimestamp) % (constants.SentinelLockTimeWindow + constants.SentinelRevokeTimeWindow)
		verifAssert(cycle >= constants.SentinelLockTimeWindow, "revocation only inside the revoke window of the 30-day cycle")
		verifAssert(len(d) == 2, "revocation emits two sends")
		verifAssert(d[0].ToAddress == E.Owner && d[1].ToAddress == E.Owner, "collateral goes back to the owner")
		verifAssert(d[0].TokenStandard == types.ZnnTokenStandard && d[0].Amount.Cmp(E.ZnnAmount) == 0 && d[1].TokenStandard == types.QsrTokenStandard && d[1].Amount.Cmp(E.QsrAmount) == 0, "exactly the locked ZNN and QSR are paid")
		verifAssert(after.RevokeTimestamp == now && after.ZnnAmount.Sign() == 0 && after.QsrAmount.Sign() == 0, "afterwards the entry is revoked and holds nothing")
		verifAssert(depAfter.Qsr.Cmp(D) == 0, "deposits untouched")
	} else {
		verifReach("registered", true)
		created := definition.GetSentinelInfoByOwner(e.storage(), e.send.Address)
		verifAssert(created != nil && created.ZnnAmount.Cmp(constants.SentinelZnnRegisterAmount) == 0 && created.QsrAmount.Cmp(constants.SentinelQsrDepositAmount) == 0 && created.RevokeTimestamp == 0 && created.RegistrationTimestamp == now, "new active entry with the registration amounts")
		verifAssert(e.send.Amount.Cmp(constants.SentinelZnnRegisterAmount) == 0, "registration locks exactly the ZNN sent")
		verifAssert(!(hasEntry && e.send.Address == E.Owner), "an account registers at most one sentinel")
		verifAssert(e.send.Address == depositor && D.Cmp(constants.SentinelQsrDepositAmount) >= 0, "the QSR collateral comes from the caller's own sufficient deposit")
		verifAssert(depAfter.Qsr.Cmp(new(big.Int).Sub(D, constants.SentinelQsrDepositAmount)) == 0, "exactly the QSR collateral is consumed from the deposit")
	}
}
