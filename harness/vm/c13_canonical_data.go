//go:build verif

package vm

import (
	"bytes"
	"math/big"

	"github.com/zenon-network/go-zenon/chain/nom"
	"github.com/zenon-network/go-zenon/chain/store"
	"github.com/zenon-network/go-zenon/common/types"
	"github.com/zenon-network/go-zenon/vm/embedded/definition"
)

// models for the sender side of applyBlock (plasma accounting reads)
func (m *c09Momentum) GetAccountStore(address types.Address) store.Account { return m.confirmed }
func (m *c09Momentum) GetStakeBeneficialAmount(addr types.Address) (*big.Int, error) {
	return big.NewInt(5000 * 100000000), nil // enough fused QSR for the maximum plasma
}

// VerifC13CanonicalCallData: a send to an embedded contract that the VM accepts (vm.applyBlock on the sender's account)
// leaves the block carrying the method's own canonical encoding of its call data, whatever padding the delivered
// data had; the hash check that follows therefore runs on the canonical bytes (a non-canonical variant cannot be stored).
func VerifC13CanonicalCallData() {
	var sender types.Address
	sender[0] = types.UserAddrByte
	sender[3] = 3
	e := c09NewEnv(sender) // account store of the SENDER
	e.mom.confirmed = e.as
	verifAssert(e.as.SetBalance(types.QsrTokenStandard, new(big.Int).Lsh(big.NewInt(1), 100)) == nil, "set")
	// Fuse(address): one static argument; the 12 padding bytes of the address word are hostile
	raw := verifNondetBytes("call data", 36)
	block := &nom.AccountBlock{BlockType: nom.BlockTypeUserSend, Version: 1, ChainIdentifier: 1, Height: 2, Address: sender, ToAddress: types.PlasmaContract,
		TokenStandard: types.QsrTokenStandard, Amount: big.NewInt(10 * 100000000), Data: raw, FusedPlasma: 100000}
	err := c12Contained(func() error { return NewVM(e.ctx).applyBlock(block) })
	if err != nil {
		verifReach("refused", true)
		return
	}
	verifReach("accepted", true)
	var ben types.Address
	copy(ben[:], raw[16:36])
	canonical := definition.ABIPlasma.PackMethodPanic(definition.FuseMethodName, ben)
	padded := false
	for _, x := range raw[4:16] {
		if x != 0 {
			padded = true
			break
		}
	}
	verifReach("accepted with non-canonical padding", padded)
	verifAssert(bytes.Equal(block.Data, canonical), "after acceptance the block carries the canonical call data")
}
