//go:build verif

package vm

import (
	"github.com/zenon-network/go-zenon/chain"
	"github.com/zenon-network/go-zenon/chain/nom"
	"github.com/zenon-network/go-zenon/chain/store"
	"github.com/zenon-network/go-zenon/common/types"
	"github.com/zenon-network/go-zenon/consensus"
	"github.com/zenon-network/go-zenon/consensus/api"
)

// ---- C02: an account block is executed against the ledger as of the momentum it acknowledges and the account
// chain as of its stated predecessor — never against whatever the executing node's frontier happens to be.
type c02Chain struct {
	chain.Chain
	askedMomentum []types.HashHeight
	askedAccount  []types.HashHeight
	askedAddr     []types.Address
	frontierAsked bool
	ms            *c09Momentum
	as            store.Account
}

func (c *c02Chain) GetMomentumStore(id types.HashHeight) store.Momentum {
	c.askedMomentum = append(c.askedMomentum, id)
	return c.ms
}
func (c *c02Chain) GetAccountStore(a types.Address, id types.HashHeight) store.Account {
	c.askedAddr = append(c.askedAddr, a)
	c.askedAccount = append(c.askedAccount, id)
	return c.as
}
func (c *c02Chain) GetFrontierMomentumStore() store.Momentum {
	c.frontierAsked = true
	return c.ms
}
func (c *c02Chain) GetFrontierAccountStore(a types.Address) store.Account {
	c.frontierAsked = true
	return c.as
}

type c02Consensus struct {
	consensus.Consensus
	asked []types.HashHeight
}

func (c *c02Consensus) FixedPillarReader(id types.HashHeight) api.PillarReader {
	c.asked = append(c.asked, id)
	return &c09Pillars{}
}

// VerifC02BlockContext: Supervisor.newBlockContext / newMomentumContext on an arbitrary block / momentum.
func VerifC02BlockContext() {
	e := c09NewEnv(types.PlasmaContract)
	ch := &c02Chain{ms: e.mom, as: e.as}
	cs := &c02Consensus{}
	s := &Supervisor{chain: ch, consensus: cs}
	b := &nom.AccountBlock{Height: verifNondetU64("block.Height"), PreviousHash: c03HashVM("block.PreviousHash"),
		MomentumAcknowledged: types.HashHeight{Hash: c03HashVM("block.MA.Hash"), Height: verifNondetU64("block.MA.Height")}}
	copy(b.Address[:], verifNondetBytes("block.Address", 20))
	verifAssume(b.Height >= 1, "heights start at 1")
	if verifNondetBool("block carries a descendant") {
		// Previous() of a contract receive with descendants is the predecessor of its first descendant
		b.DescendantBlocks = []*nom.AccountBlock{{Height: verifNondetU64("d.Height"), PreviousHash: c03HashVM("d.PreviousHash")}}
		verifAssume(b.DescendantBlocks[0].Height >= 1, "heights start at 1")
	}
	ctx := s.newBlockContext(b)
	verifAssert(ctx != nil, "context built")
	verifAssert(len(ch.askedMomentum) == 1 && ch.askedMomentum[0] == b.MomentumAcknowledged, "ledger view = the acknowledged momentum")
	verifAssert(len(cs.asked) == 1 && cs.asked[0] == b.MomentumAcknowledged, "consensus view = the acknowledged momentum")
	verifAssert(len(ch.askedAccount) == 1 && ch.askedAddr[0] == b.Address && ch.askedAccount[0] == b.Previous(), "account view = the block's own account as of its predecessor")
	verifAssert(!ch.frontierAsked, "the node's own frontier is not consulted")

	m := &nom.Momentum{Height: verifNondetU64("momentum.Height"), PreviousHash: c03HashVM("momentum.PreviousHash")}
	verifAssume(m.Height >= 1, "heights start at 1")
	ch.askedMomentum = nil
	mc := s.newMomentumContext(m)
	verifAssert(mc != nil && len(ch.askedMomentum) == 1 && ch.askedMomentum[0] == m.Previous() && !ch.frontierAsked, "a momentum is applied on the ledger as of its stated predecessor")
}
