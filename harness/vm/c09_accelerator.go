//go:build verif

package vm

import (
	"math/big"

	"github.com/zenon-network/go-zenon/common/types"
	"github.com/zenon-network/go-zenon/vm/constants"
	"github.com/zenon-network/go-zenon/vm/embedded/definition"
)

// VerifC09AcceleratorPhases: AddPhase / UpdatePhase sent by anybody to the accelerator from an arbitrary project
// state: one project (any owner, any status, any funds) with 0 or 1 phase ids, the named phase record present or not,
// in any status.  If the network accepted the send, the receive does not panic, the block is produced, balances are
// conserved; a call that is applied was sent by the project's owner and leaves the project pointing at a stored phase.
func VerifC09AcceleratorPhases() {
	e := c09NewEnv(types.AcceleratorContract)
	e.mom.sporks[0] = true // AddPhase / UpdatePhase exist only under the accelerator spork
	P := &definition.Project{Id: c03HashVM("project.Id"), Name: "n", Description: "d", Url: "zenon.network", ZnnFundsNeeded: c01Amount("project.Znn"), QsrFundsNeeded: c01Amount("project.Qsr"),
		CreationTimestamp: 1600000000, LastUpdateTimestamp: 1600000000, Status: verifNondetU8("project.Status")}
	P.Owner[0] = types.UserAddrByte
	copy(P.Owner[1:], verifNondetBytes("project.Owner", 19))
	verifAssume(P.ZnnFundsNeeded.Cmp(c10Lim) < 0 && P.QsrFundsNeeded.Cmp(c10Lim) < 0, "amounts far below 2^255")
	nPhases := verifNondetLen("phases of the project", 0, 1)
	var F *definition.Phase
	if nPhases == 1 {
		F = &definition.Phase{Id: c03HashVM("phase.Id"), ProjectId: P.Id, Name: "n", Description: "d", Url: "zenon.network", ZnnFundsNeeded: c01Amount("phase.Znn"), QsrFundsNeeded: c01Amount("phase.Qsr"),
			CreationTimestamp: 1600000000, Status: verifNondetU8("phase.Status")}
		verifAssume(F.ZnnFundsNeeded.Cmp(c10Lim) < 0 && F.QsrFundsNeeded.Cmp(c10Lim) < 0, "amounts far below 2^255")
		P.PhaseIds = []types.Hash{F.Id}
		if verifNondetBool("the phase record exists") {
			F.Save(e.storage())
		}
	}
	P.Save(e.storage())
	bz, bq := c01Amount("contract znn"), c01Amount("contract qsr")
	verifAssume(bz.Cmp(c10Lim) < 0 && bq.Cmp(c10Lim) < 0, "balances far below 2^255")
	verifAssert(e.as.SetBalance(types.ZnnTokenStandard, bz) == nil && e.as.SetBalance(types.QsrTokenStandard, bq) == nil, "set")

	update := verifNondetBool("call is UpdatePhase (else AddPhase)")
	name := definition.AddPhaseMethodName
	if update {
		name = definition.UpdatePhaseMethodName
	}
	id := c03HashVM("call.id")
	data := definition.ABIAccelerator.PackMethodPanic(name, id, "n", "d", "zenon.network", c01Amount("call.Znn"), c01Amount("call.Qsr"))
	tok := []types.ZenonTokenStandard{types.ZnnTokenStandard, types.QsrTokenStandard}[verifNondetLen("token (0 znn, 1 qsr)", 0, 1)]
	e.c09Send(data, tok)
	verifAssume(e.send.Amount.Cmp(c10Lim) < 0, "amount far below 2^255")
	verifAssume(e.send.Hash != P.Id && (F == nil || e.send.Hash != F.Id), "stored ids are hashes of earlier blocks: the new send's hash differs (collision freedom)")
	if !e.sendAccepted() {
		verifReach("refused at send time", true)
		return
	}
	o := e.receive()
	e.c09CheckWrapper(o, map[types.ZenonTokenStandard]*big.Int{types.ZnnTokenStandard: bz, types.QsrTokenStandard: bq}, 0)
	if o.panicked || o.block == nil {
		return
	}
	if o.methodErr != nil {
		verifReach("refused", true)
		return
	}
	verifReach("applied", true)
	verifAssert(id == P.Id && e.send.Address == P.Owner, "only the owner of the named project adds or updates its phases")
	after, err := definition.GetProjectEntry(e.storage(), P.Id)
	verifAssert(err == nil && len(after.PhaseIds) >= 1 && after.PhaseIds[len(after.PhaseIds)-1] == e.send.Hash, "the project's current phase is the new one")
	np, err := definition.GetPhaseEntry(e.storage(), e.send.Hash)
	verifAssert(err == nil && np.ProjectId == P.Id && np.Status == definition.VotingStatus, "the new phase is stored, in voting")
	verifAssert(np.ZnnFundsNeeded.Cmp(constants.ProjectZnnMaximumFunds) <= 0 && np.QsrFundsNeeded.Cmp(constants.ProjectQsrMaximumFunds) <= 0, "phase funds within the maximum")
	if update {
		verifAssert(nPhases == 1 && len(after.PhaseIds) == 1, "UpdatePhase replaces the current phase; it needs one")
	} else {
		verifAssert(P.Status == definition.ActiveStatus, "phases are added to active projects only")
	}
}
