//go:build verif

package vm

import (
	"math/big"

	"github.com/zenon-network/go-zenon/chain/nom"
	"github.com/zenon-network/go-zenon/common/types"
	"github.com/zenon-network/go-zenon/vm/embedded/definition"
)

// VerifC09ContractSentValueCalls: the value-carrying calls that embedded contracts themselves send to other embedded
// contracts (Token.Mint -> Donate at the accelerator / liquidity contract with any minted token; liquidity -> Donate
// at the accelerator; pillar / liquidity / bridge -> Token.Burn).  A refund to an embedded sender is impossible (the
// refund carries no call data, so its send-time validation fails, generateEmbeddedReceive returns no block and the
// receiving contract's inbox is wedged), so for these calls the receive must not fail at all: no panic, the receive
// block is produced and the method returns no error.
func VerifC09ContractSentValueCalls() {
	k := verifNondetLen("case (0 token->accelerator.Donate, 1 token->liquidity.Donate, 2 liquidity->accelerator.Donate, 3 pillar->token.Burn QSR, 4 liquidity->token.Burn ZNN, 5 bridge->token.Burn owned)", 0, 5)
	sender := []types.Address{types.TokenContract, types.TokenContract, types.LiquidityContract, types.PillarContract, types.LiquidityContract, types.BridgeContract}[k]
	target := []types.Address{types.AcceleratorContract, types.LiquidityContract, types.AcceleratorContract, types.TokenContract, types.TokenContract, types.TokenContract}[k]
	e := c09NewEnv(target)
	var tok types.ZenonTokenStandard
	switch k {
	case 0, 1:
		copy(tok[:], verifNondetBytes("minted token", 10)) // Mint sends whatever token its caller named
	case 2:
		tok = []types.ZenonTokenStandard{types.ZnnTokenStandard, types.QsrTokenStandard}[verifNondetLen("token (0 znn, 1 qsr)", 0, 1)]
	case 3:
		tok = types.QsrTokenStandard
	case 4:
		tok = types.ZnnTokenStandard
	case 5:
		copy(tok[:], verifNondetBytes("bridge-owned token", 10))
	}
	var data []byte
	if k <= 2 {
		data = definition.ABICommon.PackMethodPanic(definition.DonateMethodName)
	} else {
		data = definition.ABIToken.PackMethodPanic(definition.BurnMethodName)
	}
	e.c09Send(data, tok)
	e.send.Address, e.send.BlockType = sender, nom.BlockTypeContractSend
	verifAssume(e.send.Amount.Cmp(c10Lim) < 0, "amount far below 2^255")
	bal := c01Amount("target balance of the token")
	verifAssume(bal.Cmp(c10Lim) < 0, "balance far below 2^255")
	verifAssert(e.as.SetBalance(tok, bal) == nil, "set")
	var S *big.Int
	if k >= 3 {
		T := &definition.TokenInfo{TokenName: "t", TokenSymbol: "T", Decimals: 8, TotalSupply: c01Amount("token.TotalSupply"), MaxSupply: c01Amount("token.MaxSupply"),
			IsMintable: verifNondetBool("token.IsMintable"), IsBurnable: verifNondetBool("token.IsBurnable"), TokenStandard: tok}
		copy(T.Owner[:], verifNondetBytes("token.Owner", 20))
		if k == 5 {
			T.Owner = types.BridgeContract // Inv: a token pair marked `owned` is a token whose owner is the bridge
		} else {
			verifAssume(T.IsBurnable, "Inv (genesis): ZNN and QSR are burnable")
		}
		verifAssume(T.TotalSupply.Cmp(T.MaxSupply) <= 0 && T.MaxSupply.Cmp(c01P255m1) <= 0 && e.send.Amount.Cmp(T.TotalSupply) <= 0, "Inv: in-flight amount <= total supply <= max supply <= 2^255-1")
		verifAssert(T.Save(e.storage()) == nil, "save")
		S = new(big.Int).Set(T.TotalSupply)
	}
	if !e.sendAccepted() {
		verifReach("refused at send time (the sending contract's own call fails and is rolled back)", true)
		return
	}
	verifReach("accepted", true)
	o := e.receive()
	var before map[types.ZenonTokenStandard]*big.Int
	if k <= 2 {
		before = map[types.ZenonTokenStandard]*big.Int{tok: bal}
	}
	verifAssert(!o.panicked, "no panic escapes the receive of a contract-sent call")
	if o.panicked {
		return
	}
	verifAssert(o.err == nil && o.block != nil, "the receive block is produced: a contract-sent call is never refunded (the refund cannot be sent)")
	verifAssert(o.methodErr == nil, "a value-carrying call sent by a contract does not fail")
	if o.methodErr != nil {
		return
	}
	e.c09CheckWrapper(o, before, 0)
	if k >= 3 {
		after, err := definition.GetTokenInfo(e.storage(), tok)
		verifAssert(err == nil && after.TotalSupply.Cmp(new(big.Int).Sub(S, e.send.Amount)) == 0, "the burn lowers the supply by exactly the amount")
		verifAssert(c09Bal(e.as, tok).Cmp(bal) == 0, "the burned amount does not stay on the token contract")
	} else {
		verifAssert(len(o.block.DescendantBlocks) == 0, "a donation sends nothing")
	}
}
