//go:build verif

package vm

import (
	"math/big"

	"github.com/syndtr/goleveldb/leveldb/memdb"

	"github.com/zenon-network/go-zenon/chain/account"
	"github.com/zenon-network/go-zenon/chain/nom"
	"github.com/zenon-network/go-zenon/chain/store"
	"github.com/zenon-network/go-zenon/common/db"
	"github.com/zenon-network/go-zenon/common/types"
	"github.com/zenon-network/go-zenon/vm/constants"
	"github.com/zenon-network/go-zenon/vm/vm_context"
)

func verifModelRandHeightVM(p *memdb.DB) int { return 1 }

type verifRandSourceVM interface {
	Int63() int64
	Seed(seed int64)
}

func verifModelNewSourceNilVM(seed int64) verifRandSourceVM { return nil }

func c01Amount(tag string) *big.Int { return new(big.Int).SetBytes(verifNondetBytes(tag, 32)) }

func c01ZTS(tag string) types.ZenonTokenStandard {
	var z types.ZenonTokenStandard
	copy(z[:], verifNondetBytes(tag, 10))
	return z
}

type c01Momentum struct {
	store.Momentum
	from *nom.AccountBlock
}

func (m *c01Momentum) GetAccountBlockByHash(h types.Hash) (*nom.AccountBlock, error) {
	if m.from != nil && m.from.Hash == h {
		return m.from, nil
	}
	return nil, nil
}

var c01Two255 = new(big.Int).Lsh(big.NewInt(1), 255)

// c01Account: the real account store over the real in-memory db with an arbitrary balance of token t and of one other token
func c01Account(addr types.Address, t, other types.ZenonTokenStandard, b, bo *big.Int) store.Account {
	as := account.NewAccountStore(addr, db.NewMemDB())
	verifAssert(as.SetBalance(t, b) == nil, "set")
	if other != t {
		verifAssert(as.SetBalance(other, bo) == nil, "set")
	}
	return as
}

// VerifC01UserSend: a plain transfer (destination is not a contract) leaves balances + in-flight unchanged:
// accepted => amount <= balance, the sender's balance of that token drops by exactly the amount (which becomes
// in-flight), no other balance moves; rejected => nothing changes.
func VerifC01UserSend() {
	var addr types.Address
	addr[0] = types.UserAddrByte
	t, other := c01ZTS("token"), c01ZTS("other token")
	b, bo := c01Amount("balance"), c01Amount("other balance")
	verifAssume(t != types.ZeroTokenStandard && b.Cmp(c01Two255) < 0 && bo.Cmp(c01Two255) < 0, "Inv: balances are below 2^255 (bounded by max supply)")
	as := c01Account(addr, t, other, b, bo)
	ctx := vm_context.NewAccountContext(&c01Momentum{}, as, nil)
	block := &nom.AccountBlock{BlockType: nom.BlockTypeUserSend, Address: addr, Amount: c01Amount("amount")}
	copy(block.ToAddress[:], verifNondetBytes("to", 20))
	verifAssume(!types.IsEmbeddedAddress(block.ToAddress), "plain transfer: destination is a user account")
	useT := verifNondetBool("block names the token the sender holds")
	if useT {
		block.TokenStandard = t
	} else {
		block.TokenStandard = other
	}
	verifAssume(block.Amount.Cmp(c01Two255) < 0, "verifier: amount < 2^255 (C03)")
	verifAssume(block.Amount.Sign() == 0 || block.TokenStandard != types.ZeroTokenStandard, "verifier: a positive amount names a token (C03)")

	err := c12Contained(func() error { return NewVM(ctx).applySend(block) })
	have := b
	if !useT && other != t {
		have = bo
	}
	if block.TokenStandard == types.ZeroTokenStandard {
		have = big.NewInt(0)
	}
	after, _ := as.GetBalance(block.TokenStandard)
	tAfter, _ := as.GetBalance(t)
	oAfter, _ := as.GetBalance(other)
	if err == nil {
		verifReach("accepted", true)
		verifReach("accepted with the full balance", block.Amount.Cmp(have) == 0 && have.Sign() > 0)
		verifAssert(block.Amount.Cmp(have) <= 0, "accepted => amount <= balance")
		if block.TokenStandard != types.ZeroTokenStandard {
			verifAssert(after.Cmp(new(big.Int).Sub(have, block.Amount)) == 0, "accepted => balance' = balance - amount")
		}
		if block.TokenStandard != t {
			verifAssert(tAfter.Cmp(b) == 0, "the other token's balance is untouched")
		} else if other != t {
			verifAssert(oAfter.Cmp(bo) == 0, "the other token's balance is untouched")
		}
	} else {
		verifReach("rejected", true)
		verifAssert(block.Amount.Cmp(have) > 0, "rejected only for insufficient balance")
		verifAssert(tAfter.Cmp(b) == 0 && (other == t || oAfter.Cmp(bo) == 0), "rejected => balances unchanged")
	}
	_ = constants.ErrInsufficientBalance
}

// VerifC01UserReceive: receiving credits exactly what the stored send carries (amount and token are read from the send,
// not from the receive block), marks exactly that send as received, and nothing else changes.
func VerifC01UserReceive() {
	var addr types.Address
	addr[0] = types.UserAddrByte
	t, other := c01ZTS("token"), c01ZTS("other token")
	b, bo := c01Amount("balance"), c01Amount("other balance")
	from := &nom.AccountBlock{BlockType: nom.BlockTypeUserSend, Hash: c03HashVM("from.Hash"), Amount: c01Amount("from.Amount"), TokenStandard: t}
	verifAssume(new(big.Int).Add(b, from.Amount).Cmp(c01Two255) < 0 && bo.Cmp(c01Two255) < 0, "Inv: balance + in-flight <= supply < 2^255")
	as := c01Account(addr, t, other, b, bo)
	ctx := vm_context.NewAccountContext(&c01Momentum{from: from}, as, nil)
	// the receive block itself may claim anything for amount/token (the verifier forces them to zero; the VM must not use them)
	block := &nom.AccountBlock{BlockType: nom.BlockTypeUserReceive, Address: addr, FromBlockHash: from.Hash, Amount: c01Amount("claimed amount"), TokenStandard: other}
	probe := c03HashVM("probe")
	verifAssume(!as.IsReceived(probe), "probe send not received before")

	err := c12Contained(func() error { return NewVM(ctx).applyReceive(block) })
	verifAssert(err == nil, "a verified receive applies")
	verifReach("received", true)
	tAfter, _ := as.GetBalance(t)
	oAfter, _ := as.GetBalance(other)
	verifAssert(tAfter.Cmp(new(big.Int).Add(b, from.Amount)) == 0, "balance' = balance + amount of the stored send")
	if other != t {
		verifAssert(oAfter.Cmp(bo) == 0, "other balances untouched (the receive block's own amount/token fields are ignored)")
	}
	verifAssert(as.IsReceived(from.Hash), "the send is marked received")
	verifAssert(as.IsReceived(probe) == (probe == from.Hash), "no other send is marked")
}

func c03HashVM(tag string) types.Hash {
	var h types.Hash
	copy(h[:], verifNondetBytes(tag, 32))
	return h
}
