//go:build verif

package vm

import (
	"math/big"

	"github.com/zenon-network/go-zenon/common/types"
	"github.com/zenon-network/go-zenon/vm/constants"
	"github.com/zenon-network/go-zenon/vm/embedded/definition"
)

var c01P255m1 = new(big.Int).Sub(new(big.Int).Lsh(big.NewInt(1), 255), big.NewInt(1))

// VerifC01TokenSupply: one Mint / Burn / UpdateToken step of the token contract from an arbitrary token record
// (0 <= total <= max <= 2^255-1): the recorded supply changes by exactly the amount that enters or leaves circulation
// (Δsupply = Δ(contract balance) + sent out − received), stays within [0, max], only the entitled caller can mint or
// update, and a failed call changes neither the record nor the balances (refund).
func VerifC01TokenSupply() {
	e := c09NewEnv(types.TokenContract)
	T := &definition.TokenInfo{TokenName: "t", TokenSymbol: "T", Decimals: 8, TotalSupply: c01Amount("token.TotalSupply"), MaxSupply: c01Amount("token.MaxSupply"),
		IsMintable: verifNondetBool("token.IsMintable"), IsBurnable: verifNondetBool("token.IsBurnable")}
	T.Owner[0] = types.UserAddrByte
	copy(T.Owner[1:], verifNondetBytes("token.Owner", 19))
	copy(T.TokenStandard[:], verifNondetBytes("token.zts", 10))
	verifAssume(T.TokenStandard != types.ZnnTokenStandard && T.TokenStandard != types.QsrTokenStandard && T.TokenStandard != types.ZeroTokenStandard, "a user-issued token (ZNN/QSR minting by contracts: same code path with the embedded-caller rule)")
	verifAssume(T.TotalSupply.Cmp(T.MaxSupply) <= 0 && T.MaxSupply.Cmp(c01P255m1) <= 0, "Inv: 0 <= total supply <= max supply <= 2^255-1")
	verifAssume(T.IsMintable || T.TotalSupply.Cmp(T.MaxSupply) == 0, "Inv: non-mintable tokens have max = total (established by Issue / Update / Burn)")
	verifAssert(T.Save(e.storage()) == nil, "save")
	S, M := new(big.Int).Set(T.TotalSupply), new(big.Int).Set(T.MaxSupply)
	bc := c01Amount("contract balance of the token")
	verifAssume(bc.Cmp(c10Lim) < 0, "contract balance far below 2^255")
	verifAssert(e.as.SetBalance(T.TokenStandard, bc) == nil, "set")

	kind := verifNondetLen("call (0 mint, 1 burn, 2 update)", 0, 2)
	sendTok := types.ZnnTokenStandard
	var data []byte
	var mintAmt *big.Int
	var mintTo, newOwner types.Address
	var named types.ZenonTokenStandard
	var wantMintable, wantBurnable bool
	switch kind {
	case 0:
		mintAmt = c01Amount("mint.Amount")
		copy(named[:], verifNondetBytes("mint.zts", 10))
		copy(mintTo[:], verifNondetBytes("mint.receiver", 20))
		data = definition.ABIToken.PackMethodPanic(definition.MintMethodName, named, mintAmt, mintTo)
	case 1:
		sendTok = T.TokenStandard
		data = definition.ABIToken.PackMethodPanic(definition.BurnMethodName)
	case 2:
		copy(named[:], verifNondetBytes("update.zts", 10))
		copy(newOwner[:], verifNondetBytes("update.owner", 20))
		wantMintable, wantBurnable = verifNondetBool("update.IsMintable"), verifNondetBool("update.IsBurnable")
		data = definition.ABIToken.PackMethodPanic(definition.UpdateTokenMethodName, named, newOwner, wantMintable, wantBurnable)
	}
	e.c09Send(data, sendTok)
	if kind == 1 {
		verifAssume(e.send.Amount.Cmp(S) <= 0, "Inv: an in-flight amount of a token never exceeds its supply")
	}
	if !e.sendAccepted() {
		verifReach("refused at send time", true)
		return
	}
	o := e.receive()
	// the generic "balance conserved" clause does not apply to the token contract (it creates/destroys supply):
	// the per-kind Δ assertions below replace it
	e.c09CheckWrapper(o, nil, 0)
	if o.panicked || o.block == nil {
		return
	}
	after, err := definition.GetTokenInfo(e.storage(), T.TokenStandard)
	verifAssert(err == nil, "token record readable")
	if o.methodErr != nil {
		verifReach("call failed", true)
		verifAssert(after.TotalSupply.Cmp(S) == 0 && after.MaxSupply.Cmp(M) == 0 && after.Owner == T.Owner && after.IsMintable == T.IsMintable && after.IsBurnable == T.IsBurnable, "a failed call leaves the token record unchanged")
		return
	}
	// Δ circulation on token T = (contract balance' − balance) + sent out − received
	out := big.NewInt(0)
	for _, d := range o.block.DescendantBlocks {
		if d.TokenStandard == T.TokenStandard {
			out = new(big.Int).Add(out, d.Amount)
		}
	}
	recv := big.NewInt(0)
	if e.send.TokenStandard == T.TokenStandard {
		recv = e.send.Amount
	}
	delta := new(big.Int).Sub(new(big.Int).Add(new(big.Int).Sub(c09Bal(e.as, T.TokenStandard), bc), out), recv)
	dSupply := new(big.Int).Sub(after.TotalSupply, S)
	verifAssert(after.TotalSupply.Sign() >= 0 && after.TotalSupply.Cmp(after.MaxSupply) <= 0 && after.MaxSupply.Cmp(c01P255m1) <= 0, "0 <= total' <= max' <= 2^255-1")
	switch kind {
	case 0:
		if named == T.TokenStandard {
			verifReach("mint applied", true)
			verifAssert(dSupply.Cmp(mintAmt) == 0 && mintAmt.Sign() > 0 && delta.Cmp(mintAmt) == 0, "mint: Δsupply = minted amount = Δcirculation > 0")
			verifAssert(T.IsMintable && e.send.Address == T.Owner, "only the owner of a mintable token mints")
			verifAssert(len(o.block.DescendantBlocks) == 1 && o.block.DescendantBlocks[0].ToAddress == mintTo, "minted tokens go to the named receiver")
		}
	case 1:
		verifReach("burn applied", true)
		verifAssert(dSupply.Cmp(new(big.Int).Neg(e.send.Amount)) == 0 && delta.Cmp(dSupply) == 0, "burn: Δsupply = −burned amount = Δcirculation")
		verifAssert(T.IsBurnable || e.send.Address == T.Owner, "only the owner burns a non-burnable token")
		if !T.IsMintable {
			verifAssert(after.MaxSupply.Cmp(new(big.Int).Sub(M, e.send.Amount)) == 0, "non-mintable: max supply drops with the burn")
		}
	case 2:
		if named == T.TokenStandard {
			verifReach("update applied", true)
			verifAssert(dSupply.Sign() == 0 && delta.Sign() == 0, "update does not change supply or circulation")
			verifAssert(e.send.Address == T.Owner, "only the owner updates a token")
			verifAssert(T.IsMintable || !after.IsMintable, "a non-mintable token cannot become mintable")
			verifAssert(after.IsMintable || after.MaxSupply.Cmp(after.TotalSupply) == 0, "turning minting off freezes max supply at the total")
		}
	}
}

// VerifC01TokenIssue: one IssueToken step of the token contract (arbitrary supplies, flags, decimals; text fields
// fixed to valid strings) on a state that may already hold a token under the id the new one would get: an applied
// issue creates a record with 0 <= total <= max <= 2^255-1 (total = max unless mintable), owned by the issuer, and
// puts exactly `total` of the new token into circulation (one send to the issuer, the contract keeps none); the fee
// of 1 ZNN stays on the contract; an id that is taken is refused; a failed call changes nothing and is refunded.
func VerifC01TokenIssue() {
	e := c09NewEnv(types.TokenContract)
	total, max := c01Amount("issue.TotalSupply"), c01Amount("issue.MaxSupply")
	mintable, burnable, utility := verifNondetBool("issue.IsMintable"), verifNondetBool("issue.IsBurnable"), verifNondetBool("issue.IsUtility")
	data := definition.ABIToken.PackMethodPanic(definition.IssueMethodName, "name", "SYM", "", total, max, verifNondetU8("issue.Decimals"), mintable, burnable, utility)
	e.c09Send(data, []types.ZenonTokenStandard{types.ZnnTokenStandard, types.QsrTokenStandard}[verifNondetLen("token sent (0 znn, 1 qsr)", 0, 1)])
	zts := types.NewZenonTokenStandard(e.send.Hash.Bytes())
	verifAssume(zts != types.ZnnTokenStandard && zts != types.QsrTokenStandard && zts != types.ZeroTokenStandard, "a hash-derived token id does not collide with the fixed native ids (collision freedom)")
	taken := verifNondetBool("a token with the new id already exists")
	if taken {
		old := &definition.TokenInfo{TokenName: "t", TokenSymbol: "T", Decimals: 8, TotalSupply: big.NewInt(5), MaxSupply: big.NewInt(5), TokenStandard: zts}
		old.Owner[0] = types.UserAddrByte
		verifAssert(old.Save(e.storage()) == nil, "save")
	}
	bz := c01Amount("contract znn")
	verifAssume(bz.Cmp(c10Lim) < 0, "balance far below 2^255")
	verifAssert(e.as.SetBalance(types.ZnnTokenStandard, bz) == nil, "set")
	if !e.sendAccepted() {
		verifReach("refused at send time", true)
		return
	}
	verifAssert(e.send.TokenStandard == types.ZnnTokenStandard && e.send.Amount.Cmp(constants.TokenIssueAmount) == 0, "an accepted issue pays exactly the 1 ZNN fee")
	o := e.receive()
	e.c09CheckWrapper(o, nil, 0)
	if o.panicked || o.block == nil {
		return
	}
	rec, err := definition.GetTokenInfo(e.storage(), zts)
	if o.methodErr != nil {
		verifReach("issue failed", true)
		verifAssert(taken, "an accepted issue fails only because the id is taken")
		verifAssert(err == nil && rec.TotalSupply.Cmp(big.NewInt(5)) == 0, "a failed issue leaves the existing record untouched")
		verifAssert(c09Bal(e.as, types.ZnnTokenStandard).Cmp(bz) == 0, "a failed issue refunds the fee (contract balance unchanged)")
		return
	}
	verifReach("issued", true)
	verifAssert(!taken, "an id that is taken is refused")
	verifAssert(err == nil && rec.Owner == e.send.Address && rec.TokenStandard == zts, "the new token belongs to the issuer")
	verifAssert(rec.TotalSupply.Cmp(total) == 0 && rec.MaxSupply.Cmp(max) == 0 && rec.TotalSupply.Sign() >= 0 && rec.TotalSupply.Cmp(rec.MaxSupply) <= 0 && rec.MaxSupply.Cmp(c01P255m1) <= 0 && rec.MaxSupply.Sign() > 0, "0 <= total <= max <= 2^255-1, max > 0")
	verifAssert(rec.IsMintable == mintable && (mintable || rec.TotalSupply.Cmp(rec.MaxSupply) == 0), "non-mintable tokens are issued with total = max")
	verifAssert(rec.Decimals <= 18, "at most 18 decimals")
	d := o.block.DescendantBlocks
	verifAssert(len(d) == 1 && d[0].ToAddress == e.send.Address && d[0].TokenStandard == zts && d[0].Amount.Cmp(total) == 0, "exactly the total supply is sent to the issuer")
	verifAssert(c09Bal(e.as, zts).Sign() == 0, "the contract keeps none of the new token: circulation = recorded supply")
	verifAssert(c09Bal(e.as, types.ZnnTokenStandard).Cmp(new(big.Int).Add(bz, constants.TokenIssueAmount)) == 0, "the fee stays on the contract: ZNN is neither created nor destroyed")
}
