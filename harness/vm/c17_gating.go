//go:build verif

package vm

import (
	"github.com/zenon-network/go-zenon/common/types"
	"github.com/zenon-network/go-zenon/vm/embedded"
	"github.com/zenon-network/go-zenon/vm/embedded/definition"
)

// VerifC17MethodGating: the real method table lookup (embedded.GetEmbeddedMethod) under every combination of the three
// feature sporks, for one method of every gated feature: the accelerator's project machinery (Update), the bridge
// contract (Emergency), the liquidity contract's bridge-era methods (Emergency) and the HTLC contract (DenyProxyUnlock).
// A feature is available whenever its own spork is active, and unavailable while its own spork is not active - the
// second half fails when a LATER spork is active on its own (the tables are nested: htlc ⊃ bridge ⊃ accelerator),
// recorded as a known finding; any other availability without the own spork is a violation.
func VerifC17MethodGating() {
	e := c09NewEnv(types.PlasmaContract)
	type gated struct {
		contract types.Address
		data     []byte
		guard    int // index into sporks: 0 accelerator, 1 htlc, 2 bridge & liquidity
	}
	cases := []gated{
		{types.AcceleratorContract, definition.ABIAccelerator.PackMethodPanic(definition.UpdateMethodName), 0},
		{types.BridgeContract, definition.ABIBridge.PackMethodPanic(definition.EmergencyMethodName), 2},
		{types.LiquidityContract, definition.ABILiquidity.PackMethodPanic(definition.EmergencyMethodName), 2},
		{types.HtlcContract, definition.ABIHtlc.PackMethodPanic(definition.DenyHtlcProxyUnlockMethodName), 1},
	}
	c := cases[verifNondetLen("feature (0 accelerator projects, 1 bridge, 2 liquidity bridge-era, 3 htlc)", 0, 3)]
	m, err := embedded.GetEmbeddedMethod(e.ctx, c.contract, c.data)
	available := err == nil && m != nil
	own := e.mom.sporks[c.guard]
	verifReach("available", available)
	verifReach("unavailable", !available)
	verifAssert(!own || available, "a feature is available once its own spork is active")
	laterOnly := !own && ((c.guard == 0 && (e.mom.sporks[1] || e.mom.sporks[2])) || (c.guard == 2 && e.mom.sporks[1]))
	verifAssertKnown(!available || own, "a feature is unavailable while its own spork is not active", laterOnly, "C17-F18")
}
