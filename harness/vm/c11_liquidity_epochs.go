//go:build verif

package vm

import (
	"math/big"

	"github.com/zenon-network/go-zenon/common/types"
	"github.com/zenon-network/go-zenon/vm/constants"
	"github.com/zenon-network/go-zenon/vm/embedded/definition"
)

// VerifC11LiquidityEpochsOnce: the liquidity contract's Update (the table before the bridge spork) after any number of
// due epochs from 0 to `due` (a catch-up after a pause): every epoch the cursor passes is minted exactly once - the
// receive carries one ZNN mint and one QSR mint of the epoch's liquidity budget per passed epoch, in increasing epoch
// order, and never for an epoch that is not due.
func VerifC11LiquidityEpochsOnce() {
	e := c09NewEnv(types.LiquidityContract)
	e.mom.sporks[2] = false // bridge & liquidity spork not active: UpdateEmbeddedLiquidityMethod / updateLiquidityRewards
	verifAssert((&definition.LastEpochUpdate{LastEpoch: -1}).Save(e.storage()) == nil, "save")
	verifAssume(e.mom.height >= constants.UpdateMinNumMomentums, "the contract's update rate limit has passed")
	due := verifParam("due", 12)
	verifAssume(int64(e.mom.ts) < 1600000000+int64(due+1)*86400+constants.RewardTimeLimit, "at most `due` epochs are due")
	e.c09Send(definition.ABILiquidity.PackMethodPanic(definition.UpdateMethodName), types.ZnnTokenStandard)
	e.send.Amount = big.NewInt(0)
	verifAssume(e.sendAccepted(), "update call accepted")
	o := e.receive()
	e.c09CheckWrapper(o, nil, 0)
	if o.panicked || o.block == nil {
		return
	}
	verifAssert(o.methodErr == nil, "the update is applied")
	after, err := definition.GetLastEpochUpdate(e.storage())
	verifAssert(err == nil, "cursor readable")
	passed := int(after.LastEpoch + 1)
	// reference: epoch k is due iff now >= end(k) + RewardTimeLimit
	now := int64(e.mom.ts)
	dueN := 0
	for k := 0; k < due; k++ {
		if now >= 1600000000+int64(k+1)*86400+constants.RewardTimeLimit {
			dueN = k + 1
		}
	}
	verifAssert(passed <= dueN, "the cursor never passes an epoch that is not due")
	d := o.block.DescendantBlocks
	verifReach("catch-up over more epochs than one update mints", dueN > constants.MaxEpochsPerUpdate/2)
	verifReach("one epoch", dueN == 1)
	verifAssertKnown(len(d) == 2*passed, "every epoch the cursor passes is minted: one ZNN and one QSR mint per epoch", dueN > constants.MaxEpochsPerUpdate/2, "C11-F19")
	for i := 0; i+1 < len(d); i += 2 {
		z, q := constants.LiquidityRewardForEpoch(uint64(i / 2))
		wantZ := definition.ABIToken.PackMethodPanic(definition.MintMethodName, types.ZnnTokenStandard, z, types.LiquidityContract)
		wantQ := definition.ABIToken.PackMethodPanic(definition.MintMethodName, types.QsrTokenStandard, q, types.LiquidityContract)
		verifAssert(d[i].ToAddress == types.TokenContract && d[i+1].ToAddress == types.TokenContract && string(d[i].Data) == string(wantZ) && string(d[i+1].Data) == string(wantQ),
			"mints are the epochs' liquidity budgets, in increasing epoch order, each once")
	}
}
