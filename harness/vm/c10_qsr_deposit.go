//go:build verif

package vm

import (
	"math/big"

	"github.com/zenon-network/go-zenon/common/types"
	"github.com/zenon-network/go-zenon/vm/embedded/definition"
)

// VerifC10QsrDeposit: deposited QSR (sentinel contract; the pillar contract uses the same two methods) from an
// arbitrary state with one deposit: a deposit call adds exactly the sent amount to the caller's deposit; a withdraw pays
// exactly the caller's whole deposit to the caller and deletes it (a second withdraw finds nothing); other depositors
// are untouched and the contract keeps backing all deposits.
func VerifC10QsrDeposit() {
	e := c09NewEnv(types.SentinelContract)
	var owner types.Address
	owner[0] = types.UserAddrByte
	copy(owner[1:], verifNondetBytes("deposit.owner", 19))
	D := c01Amount("deposit.qsr")
	others := c01Amount("other deposits and collateral")
	B := c01Amount("contract qsr balance")
	verifAssume(D.Cmp(c10Lim) < 0 && B.Cmp(c10Lim) < 0 && B.Cmp(new(big.Int).Add(D, others)) >= 0, "Inv: contract QSR balance >= all deposits + collateral")
	if D.Sign() > 0 {
		verifAssert((&definition.QsrDeposit{Address: &owner, Qsr: D}).Save(e.storage()) == nil, "save")
	}
	verifAssert(e.as.SetBalance(types.QsrTokenStandard, B) == nil, "set")
	withdraw := verifNondetBool("call is WithdrawQsr (else DepositQsr)")
	name := definition.DepositQsrMethodName
	if withdraw {
		name = definition.WithdrawQsrMethodName
	}
	e.c09Send(definition.ABICommon.PackMethodPanic(name), types.QsrTokenStandard)
	verifAssume(e.send.Amount.Cmp(c10Lim) < 0, "amount far below 2^255")
	if !e.sendAccepted() {
		verifReach("refused at send time", true)
		return
	}
	o := e.receive()
	e.c09CheckWrapper(o, map[types.ZenonTokenStandard]*big.Int{types.QsrTokenStandard: B}, 0)
	if o.panicked || o.block == nil {
		return
	}
	mine := e.send.Address == owner
	after, err := definition.GetQsrDeposit(e.storage(), &owner)
	verifAssert(err == nil, "deposit readable")
	balAfter := c09Bal(e.as, types.QsrTokenStandard)
	if o.methodErr != nil {
		verifReach("refused", true)
		verifAssert(after.Qsr.Cmp(D) == 0, "a refused call changes nothing")
		return
	}
	if withdraw {
		verifReach("withdrawn", true)
		d := o.block.DescendantBlocks
		verifAssert(len(d) == 1 && d[0].ToAddress == e.send.Address && d[0].TokenStandard == types.QsrTokenStandard, "a withdrawal pays QSR to the caller")
		if mine {
			verifAssert(d[0].Amount.Cmp(D) == 0 && D.Sign() > 0, "exactly the caller's deposit is paid")
			verifAssert(after.Qsr.Sign() == 0, "the deposit is gone (a second withdraw finds nothing)")
			verifAssert(balAfter.Cmp(others) >= 0, "the contract still backs everything else")
		} else {
			verifAssert(after.Qsr.Cmp(D) == 0, "another account's deposit is untouched")
		}
	} else {
		verifReach("deposited", true)
		if mine {
			verifAssert(after.Qsr.Cmp(new(big.Int).Add(D, e.send.Amount)) == 0, "the deposit grows by exactly the sent amount")
		} else {
			verifAssert(after.Qsr.Cmp(D) == 0, "another account's deposit is untouched")
		}
		verifAssert(balAfter.Cmp(new(big.Int).Add(new(big.Int).Add(D, others), e.send.Amount)) >= 0, "the contract backs all deposits incl. the new amount")
	}
}
