//go:build verif

package vm

import (
	"math/big"

	"github.com/zenon-network/go-zenon/common/types"
	"github.com/zenon-network/go-zenon/consensus/api"
	"github.com/zenon-network/go-zenon/vm/constants"
	"github.com/zenon-network/go-zenon/vm/embedded/definition"
)

// VerifC11PillarEpochRewards: the pillar contract rewards epoch 0 through the real Update call (the real
// computeDetailedPillarReward loop) with one registered pillar with reward percentages from {0,37,100}, consensus
// statistics (expected, produced) from five pairs, arbitrary weight <= total weight, and 0..2 backers with
// delegated amounts from {0, 3 ZNN, 17000 ZNN}.  Everything credited for the epoch (pillar + backers) is non-negative
// and adds up to no more than the pillar's epoch reward R = P*produced + D*produced*weight*expected/expected/totalWeight
// (restated in the order the contract computes it), and R <= (P+D)*momentumsPerEpoch, the pillar budget of the epoch.
func VerifC11PillarEpochRewards() {
	e := c09NewEnv(types.PillarContract)
	verifAssert((&definition.LastEpochUpdate{LastEpoch: -1}).Save(e.storage()) == nil, "save")
	const ee = int64(1600000000 + 86400)
	verifAssume(int64(e.mom.ts) >= ee+constants.RewardTimeLimit && int64(e.mom.ts) < ee+86400+constants.RewardTimeLimit, "exactly epoch 0 is due")
	verifAssume(e.mom.height >= constants.UpdateMinNumMomentums, "the contract's update rate limit has passed")
	// percentages and block counts are picked from small sets (products with the symbolic weights stay linear);
	// weights, total weight and delegated amounts are symbolic
	pcts := []uint8{37, 100, 0}
	np := verifParam("pcts", 3) - 1
	P := &definition.PillarInfo{Name: "p0", Amount: big.NewInt(1), RegistrationTime: 1600000000 - 10, PillarType: definition.NormalPillarType,
		GiveBlockRewardPercentage: pcts[verifNondetLen("GiveBlockRewardPercentage (37, 100, 0)", 0, np)], GiveDelegateRewardPercentage: pcts[verifNondetLen("GiveDelegateRewardPercentage (37, 100, 0)", 0, np)]}
	P.StakeAddress[0], P.BlockProducingAddress[0], P.RewardWithdrawAddress[0] = types.UserAddrByte, types.UserAddrByte, types.UserAddrByte
	P.StakeAddress[19], P.BlockProducingAddress[19], P.RewardWithdrawAddress[19] = 1, 11, 21
	verifAssert(P.Save(e.storage()) == nil, "save")

	st := &api.EpochPillarStats{Name: "p0", Weight: c01Amount("weight")}
	switch verifNondetLen("(expected, produced): 0 (0,0), 1 (8640,5000), 2 (100,99), 3 (8640,8640), 4 (8640,0)", 0, verifParam("pairs", 5)-1) {
	case 1:
		st.ExceptedBlockNum, st.BlockNum = 8640, 5000
	case 2:
		st.ExceptedBlockNum, st.BlockNum = 100, 99
	case 3:
		st.ExceptedBlockNum, st.BlockNum = 8640, 8640
	case 4:
		st.ExceptedBlockNum = 8640
	}
	total := c01Amount("total weight")
	verifAssume(st.BlockNum <= st.ExceptedBlockNum && st.ExceptedBlockNum <= uint64(constants.MomentumsPerEpoch), "consensus statistics: produced <= expected <= momentums per epoch")
	verifAssume(st.Weight.Cmp(total) <= 0 && total.Cmp(new(big.Int).Lsh(big.NewInt(1), 100)) < 0, "consensus statistics: weight <= total weight < 2^100")
	e.pillars.stats = &api.EpochStats{Pillars: map[string]*api.EpochPillarStats{"p0": st}, TotalWeight: total}
	nb := verifNondetLen("backers", 0, 2)
	backers := map[types.Address]*big.Int{}
	var baddr [2]types.Address
	for i := 0; i < nb; i++ {
		baddr[i][0] = types.UserAddrByte
		baddr[i][19] = byte(31 + i)
		backers[baddr[i]] = big.NewInt([]int64{0, 300000000, 1700000000000}[verifNondetLen([]string{"backer1", "backer2"}[i]+" amount (0, 3 ZNN, 17000 ZNN)", 0, 2)])
	}
	e.pillars.details = map[string]*types.PillarDelegationDetail{"p0": {PillarDelegation: types.PillarDelegation{Name: "p0", Producing: P.BlockProducingAddress, Weight: st.Weight}, Backers: backers}}

	e.c09Send(definition.ABICommon.PackMethodPanic(definition.UpdateMethodName), types.ZnnTokenStandard)
	e.send.Amount = big.NewInt(0)
	verifAssume(e.sendAccepted(), "update call accepted")
	o := e.receive()
	e.c09CheckWrapper(o, nil, 0)
	if o.panicked || o.block == nil {
		return
	}
	verifAssert(o.methodErr == nil, "the update is applied")
	after, err := definition.GetLastEpochUpdate(e.storage())
	verifAssert(err == nil && after.LastEpoch == 0, "exactly epoch 0 was rewarded")

	// reference reward of the pillar, in the contract's operation order
	D, Pm := constants.PillarRewardPerMomentum(0)
	R := new(big.Int).Mul(Pm, new(big.Int).SetUint64(st.BlockNum))
	if st.ExceptedBlockNum != 0 && total.Sign() != 0 {
		d := new(big.Int).Set(D)
		d.Mul(d, new(big.Int).SetUint64(st.BlockNum))
		d.Mul(d, st.Weight)
		d.Mul(d, new(big.Int).SetUint64(st.ExceptedBlockNum)) // total expected = the only pillar's expected
		d.Quo(d, new(big.Int).SetUint64(st.ExceptedBlockNum))
		d.Quo(d, total)
		R = new(big.Int).Add(R, d)
	}
	if st.ExceptedBlockNum == 0 {
		R = big.NewInt(0)
	}
	sum := big.NewInt(0)
	dep, err := definition.GetRewardDeposit(e.storage(), &P.RewardWithdrawAddress)
	verifAssert(err == nil && dep.Qsr.Sign() == 0 && dep.Znn.Sign() >= 0, "pillar rewards are ZNN only, non-negative")
	sum.Add(sum, dep.Znn)
	for i := 0; i < nb; i++ {
		d, err := definition.GetRewardDeposit(e.storage(), &baddr[i])
		verifAssert(err == nil && d.Qsr.Sign() == 0 && d.Znn.Sign() >= 0, "backer rewards are ZNN only, non-negative")
		sum = new(big.Int).Add(sum, d.Znn)
	}
	verifReach("backers without weight", nb > 0 && sum.Sign() > 0 && backers[baddr[0]].Sign() == 0)
	verifReach("something credited", sum.Sign() > 0)
	verifAssert(sum.Cmp(R) <= 0, "pillar + backers are credited no more than the pillar's epoch reward")
	budget := new(big.Int).Mul(new(big.Int).Add(D, Pm), big.NewInt(constants.MomentumsPerEpoch))
	verifAssert(R.Cmp(budget) <= 0, "the pillar's epoch reward <= the pillar budget of the epoch")
}
