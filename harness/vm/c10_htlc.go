//go:build verif

package vm

import (
	"bytes"
	"math/big"

	"github.com/zenon-network/go-zenon/common/crypto"
	"github.com/zenon-network/go-zenon/common/types"
	"github.com/zenon-network/go-zenon/vm/embedded/definition"
)

// VerifC10Htlc: one Reclaim / Unlock step on the HTLC contract from an arbitrary state holding one deposit:
// the deposit is paid only (a) to the time-locked depositor, by the depositor, at or after expiry, or (b) to the
// hash-locked beneficiary, before expiry, on presentation of a preimage of the hash lock that is not longer than the
// declared maximum, by the beneficiary itself or (if proxy unlock is not denied) by anyone; the entry is deleted in
// the same step (never twice); amount and token are the entry's.
func VerifC10Htlc() {
	e := c09NewEnv(types.HtlcContract)
	e.mom.sporks[1] = true // the HTLC contract exists only under the htlc spork
	E := &definition.HtlcInfo{Id: c03HashVM("entry.Id"), TokenStandard: types.ZnnTokenStandard, Amount: c01Amount("entry.Amount"),
		ExpirationTime: int64(verifNondetU64("entry.ExpirationTime")), HashType: definition.HashTypeSHA3, KeyMaxSize: verifNondetU8("entry.KeyMaxSize")}
	E.TimeLocked[0], E.HashLocked[0] = types.UserAddrByte, types.UserAddrByte
	copy(E.TimeLocked[1:], verifNondetBytes("entry.TimeLocked", 19))
	copy(E.HashLocked[1:], verifNondetBytes("entry.HashLocked", 19))
	E.HashLock = verifNondetBytes("entry.HashLock", 32)
	verifAssume(E.ExpirationTime >= 0 && E.ExpirationTime < 1<<40 && E.Amount.Sign() > 0 && E.Amount.Cmp(c10Lim) < 0, "entry: positive amount, expiry is a timestamp")
	verifAssert(E.Save(e.storage()) == nil, "save")
	proxyState := verifNondetLen("proxy unlock of the beneficiary (0 default, 1 denied, 2 allowed)", 0, 2)
	if proxyState != 0 {
		verifAssert((&definition.HtlcProxyUnlockInfo{Address: E.HashLocked, Allowed: proxyState == 2}).Save(e.storage()) == nil, "save")
	}
	others := c01Amount("other deposits")
	B := c01Amount("contract znn balance")
	verifAssume(B.Cmp(new(big.Int).Add(E.Amount, others)) >= 0 && B.Cmp(c10Lim) < 0, "Inv: contract balance >= sum of all deposits")
	verifAssert(e.as.SetBalance(types.ZnnTokenStandard, B) == nil, "set")

	unlock := verifNondetBool("call is Unlock (else Reclaim)")
	id := c03HashVM("call.id")
	var preimage []byte
	var data []byte
	if unlock {
		// lengths 0..preimage, plus lengths at and just over the 8-bit range of KeyMaxSize (255, 256, 256+k)
		n := verifNondetLen("len(preimage)", 0, verifParam("preimage", 2)+verifParam("longpreimage", 2))
		if short := verifParam("preimage", 2); n > short {
			n = 254 + n - short
		}
		preimage = verifNondetBytes("preimage", n)
		data = definition.ABIHtlc.PackMethodPanic(definition.UnlockHtlcMethodName, id, preimage)
	} else {
		data = definition.ABIHtlc.PackMethodPanic(definition.ReclaimHtlcMethodName, id)
	}
	e.c09Send(data, types.ZnnTokenStandard)
	if !e.sendAccepted() {
		verifReach("refused at send time", true)
		return
	}
	o := e.receive()
	e.c09CheckWrapper(o, map[types.ZenonTokenStandard]*big.Int{types.ZnnTokenStandard: B}, 0)
	if o.panicked || o.block == nil {
		return
	}
	now := int64(e.mom.ts)
	_, errE := definition.GetHtlcInfo(e.storage(), E.Id)
	balAfter := c09Bal(e.as, types.ZnnTokenStandard)
	if o.methodErr != nil {
		verifReach("refused", true)
		verifAssert(errE == nil, "a refused call leaves the deposit in place")
		return
	}
	verifReach("paid out", true)
	verifReach("unlocked by a proxy", unlock && e.send.Address != E.HashLocked)
	d := o.block.DescendantBlocks
	verifAssert(id == E.Id, "only the named deposit can be paid (the state holds no other)")
	verifAssert(errE != nil, "the deposit is deleted in the same step (it cannot be paid twice)")
	verifAssert(len(d) == 1 && d[0].Amount.Cmp(E.Amount) == 0 && d[0].TokenStandard == E.TokenStandard, "exactly the deposited amount and token are paid")
	verifAssert(balAfter.Cmp(others) >= 0, "the contract still backs all other deposits")
	if unlock {
		verifAssert(d[0].ToAddress == E.HashLocked, "unlock pays the hash-lock beneficiary")
		verifAssert(now < E.ExpirationTime, "unlock only before expiry")
		verifAssert(len(preimage) <= int(E.KeyMaxSize), "preimage not longer than declared")
		verifAssert(bytes.Equal(crypto.Hash(preimage), E.HashLock), "the preimage hashes to the hash lock")
		verifAssert(e.send.Address == E.HashLocked || proxyState != 1, "a third party can unlock only if proxy unlock is not denied")
	} else {
		verifAssert(d[0].ToAddress == E.TimeLocked && e.send.Address == E.TimeLocked, "reclaim pays the depositor and only the depositor can reclaim")
		verifAssert(now >= E.ExpirationTime, "reclaim only at or after expiry")
	}
}
