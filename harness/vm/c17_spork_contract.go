//go:build verif

package vm

import (
	"github.com/zenon-network/go-zenon/common/types"
	"github.com/zenon-network/go-zenon/vm/constants"
	"github.com/zenon-network/go-zenon/vm/embedded/definition"
)

// VerifC17CreateActivate: creating and activating a spork requires the designated key (the community key only inside
// its height window); creation stores an inactive record whose id is the send hash; activation works only on a stored,
// not yet activated record, takes effect SporkMinHeightDelay momentums later and cannot be repeated.
func VerifC17CreateActivate() {
	e := c09NewEnv(types.SporkContract)
	designated := types.Address{}
	designated[0] = types.UserAddrByte
	designated[7] = 7
	types.SporkAddress = &designated
	// arbitrary stored record
	S := &definition.Spork{Id: c03HashVM("spork.Id"), Name: "abcde", Description: "d", Activated: verifNondetBool("spork.Activated"), EnforcementHeight: verifNondetU64("spork.EnforcementHeight")}
	S.Save(e.storage())

	activate := verifNondetBool("call is Activate (else Create)")
	var data []byte
	target := c03HashVM("activate.id")
	if activate {
		data = definition.ABISpork.PackMethodPanic(definition.SporkActivateMethodName, target)
	} else {
		data = definition.ABISpork.PackMethodPanic(definition.SporkCreateMethodName, verifNondetString("name", verifNondetLen("len(name)", 4, 5)), "desc")
	}
	e.c09Send(data, types.ZnnTokenStandard)
	who := verifNondetLen("sender (0 arbitrary, 1 designated key, 2 community key)", 0, 2)
	switch who {
	case 1:
		e.send.Address = designated
	case 2:
		e.send.Address = types.CommunitySporkAddress
	}
	accepted := e.sendAccepted()
	if who == 0 && e.send.Address != designated && e.send.Address != types.CommunitySporkAddress {
		verifReach("stranger", true)
		verifAssert(!accepted, "a sender other than the designated keys is refused at send time")
	}
	if !accepted {
		return
	}
	o := e.receive()
	e.c09CheckWrapper(o, nil, 0)
	if o.panicked || o.block == nil {
		return
	}
	after := definition.GetSporkInfoById(e.storage(), S.Id)
	verifAssert(after != nil, "stored record still readable")
	if o.methodErr != nil {
		verifReach("refused", true)
		verifAssert(after.Activated == S.Activated && after.EnforcementHeight == S.EnforcementHeight, "a refused call leaves the record unchanged")
		return
	}
	verifAssert(e.send.Address == designated || (e.send.Address == types.CommunitySporkAddress && e.mom.height >= definition.CommunitySporkAddressStartHeight && e.mom.height < definition.CommunitySporkAddressEndHeight),
		"applied => sent by the designated key, or by the community key inside its height window")
	if activate {
		verifReach("activated", true)
		verifAssert(target == S.Id, "only a stored spork can be activated")
		verifAssert(!S.Activated, "an activated spork cannot be activated again")
		verifAssert(after.Activated && after.EnforcementHeight == e.mom.height+constants.SporkMinHeightDelay, "activation takes effect SporkMinHeightDelay momentums after the frontier")
	} else {
		verifReach("created", true)
		created := definition.GetSporkInfoById(e.storage(), e.send.Hash)
		verifAssert(created != nil && !created.Activated && created.EnforcementHeight == 0 && created.Id == e.send.Hash, "creation stores an inactive record whose id is the send hash")
		if e.send.Hash != S.Id {
			verifAssert(after.Activated == S.Activated && after.EnforcementHeight == S.EnforcementHeight, "other records untouched")
		}
	}
}
