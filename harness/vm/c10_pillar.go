//go:build verif

package vm

import (
	"math/big"

	"github.com/zenon-network/go-zenon/common/types"
	"github.com/zenon-network/go-zenon/vm/constants"
	"github.com/zenon-network/go-zenon/vm/embedded/definition"
)

// VerifC10PillarCollateral: one Register / Revoke step of the pillar contract from an arbitrary state with one pillar
// entry ("p0": any owner, registered at any past time, active with the 15000 ZNN stake or revoked with 0) and one QSR
// deposit.  Registration locks exactly the 15000 ZNN sent and burns exactly the current QSR cost
// (150000 + 10000 * active pillars) out of the caller's own deposit; revocation pays exactly the stake, only to the
// owner, only inside the revoke window (days 83..90 of every 90-day cycle since registration) and only once.
func VerifC10PillarCollateral() {
	e := c09NewEnv(types.PillarContract)
	P := &definition.PillarInfo{Name: "p0", Amount: big.NewInt(0), RegistrationTime: int64(verifNondetU64("entry.RegistrationTime")), PillarType: definition.NormalPillarType,
		GiveBlockRewardPercentage: 10, GiveDelegateRewardPercentage: 20}
	active := verifNondetBool("entry is active")
	if active {
		P.Amount = new(big.Int).Set(constants.PillarStakeAmount)
	} else {
		P.RevokeTime = int64(verifNondetU64("entry.RevokeTime"))
		verifAssume(P.RevokeTime > 0 && P.RevokeTime <= int64(e.mom.ts), "revoked at a past momentum timestamp")
	}
	verifAssume(P.RegistrationTime >= 1600000000 && P.RegistrationTime <= int64(e.mom.ts), "registered at a past momentum timestamp")
	P.StakeAddress[0], P.BlockProducingAddress[0], P.RewardWithdrawAddress[0] = types.UserAddrByte, types.UserAddrByte, types.UserAddrByte
	copy(P.StakeAddress[1:], verifNondetBytes("entry.Owner", 19))
	P.BlockProducingAddress[19], P.RewardWithdrawAddress[19] = 11, 21
	verifAssert(P.Save(e.storage()) == nil, "save")
	verifAssert((&definition.ProducingPillar{Name: "p0", Producing: &P.BlockProducingAddress}).Save(e.storage()) == nil, "save")
	var depositor types.Address
	depositor[0] = types.UserAddrByte
	copy(depositor[1:], verifNondetBytes("deposit.owner", 19))
	D := c01Amount("deposit.qsr")
	verifAssume(D.Cmp(c10Lim) < 0, "amount far below 2^255")
	if D.Sign() > 0 {
		verifAssert((&definition.QsrDeposit{Address: &depositor, Qsr: D}).Save(e.storage()) == nil, "save")
	}
	Bz, Bq := c01Amount("contract znn"), c01Amount("contract qsr")
	verifAssume(Bz.Cmp(P.Amount) >= 0 && Bq.Cmp(D) >= 0 && Bz.Cmp(c10Lim) < 0 && Bq.Cmp(c10Lim) < 0, "Inv: the contract backs the locked stake and the QSR deposits")
	verifAssert(e.as.SetBalance(types.ZnnTokenStandard, Bz) == nil && e.as.SetBalance(types.QsrTokenStandard, Bq) == nil, "set")

	revoke := verifNondetBool("call is Revoke (else Register)")
	named := []string{"p0", "p1"}[verifNondetLen("named pillar (0 the existing p0, 1 p1)", 0, 1)]
	var data []byte
	var producer, reward types.Address
	if revoke {
		data = definition.ABIPillars.PackMethodPanic(definition.RevokeMethodName, named)
	} else {
		producer[0], reward[0] = types.UserAddrByte, types.UserAddrByte
		producer[19] = []byte{11, 12}[verifNondetLen("producer address (0 the one of p0, 1 a fresh one)", 0, 1)]
		reward[19] = 22
		data = definition.ABIPillars.PackMethodPanic(definition.RegisterMethodName, named, producer, reward, verifNondetU8("give block %"), verifNondetU8("give delegate %"))
	}
	e.c09Send(data, types.ZnnTokenStandard)
	verifAssume(e.send.Amount.Cmp(c10Lim) < 0, "amount far below 2^255")
	if !e.sendAccepted() {
		verifReach("refused at send time", true)
		return
	}
	o := e.receive()
	e.c09CheckWrapper(o, map[types.ZenonTokenStandard]*big.Int{types.ZnnTokenStandard: Bz, types.QsrTokenStandard: Bq}, 0)
	if o.panicked || o.block == nil {
		return
	}
	now := int64(e.mom.ts)
	after, err := definition.GetPillarInfo(e.storage(), "p0")
	verifAssert(err == nil, "the existing entry is never deleted by these methods")
	depAfter, err := definition.GetQsrDeposit(e.storage(), &depositor)
	verifAssert(err == nil, "deposit readable")
	if o.methodErr != nil {
		verifReach("refused", true)
		verifAssert(depAfter.Qsr.Cmp(D) == 0 && after.RevokeTime == P.RevokeTime && after.Amount.Cmp(P.Amount) == 0 && after.StakeAddress == P.StakeAddress, "a refused call changes nothing")
		return
	}
	d := o.block.DescendantBlocks
	if revoke {
		verifReach("revoked", true)
		verifAssert(named == "p0" && e.send.Address == P.StakeAddress, "only the owner of an existing pillar revokes it")
		verifAssert(active, "a pillar is revoked only once")
		cycle := (now - P.RegistrationTime) % (constants.PillarEpochLockTime + constants.PillarEpochRevokeTime)
		verifAssert(cycle >= constants.PillarEpochLockTime, "revocation only inside the revoke window of the 90-day cycle")
		verifAssert(len(d) == 1 && d[0].ToAddress == P.StakeAddress && d[0].TokenStandard == types.ZnnTokenStandard && d[0].Amount.Cmp(constants.PillarStakeAmount) == 0, "exactly the stake goes back to the owner")
		verifAssert(after.RevokeTime == now && after.Amount.Sign() == 0, "afterwards the entry is revoked and holds nothing")
		verifAssert(depAfter.Qsr.Cmp(D) == 0, "deposits untouched")
	} else {
		verifReach("registered", true)
		cost := new(big.Int).Set(constants.PillarQsrStakeBaseAmount)
		if active {
			cost.Add(cost, constants.PillarQsrStakeIncreaseAmount)
		}
		verifAssert(named == "p1" && producer[19] == 12, "pillar name and producing address are not already taken")
		verifAssert(e.send.Amount.Cmp(constants.PillarStakeAmount) == 0, "registration locks exactly the ZNN stake sent")
		created, err := definition.GetPillarInfo(e.storage(), "p1")
		verifAssert(err == nil && created.StakeAddress == e.send.Address && created.Amount.Cmp(constants.PillarStakeAmount) == 0 && created.RevokeTime == 0 && created.RegistrationTime == now, "new active entry owned by the sender holding the stake")
		verifAssert(created.GiveBlockRewardPercentage <= 100 && created.GiveDelegateRewardPercentage <= 100, "percentages <= 100")
		verifAssert(e.send.Address == depositor && D.Cmp(cost) >= 0, "the QSR cost comes from the caller's own sufficient deposit")
		verifAssert(depAfter.Qsr.Cmp(new(big.Int).Sub(D, cost)) == 0, "exactly the QSR cost (150000 + 10000 per active pillar) is consumed")
		verifAssert(len(d) == 1 && d[0].ToAddress == types.TokenContract && d[0].TokenStandard == types.QsrTokenStandard && d[0].Amount.Cmp(cost) == 0, "exactly the consumed QSR is sent to the token contract to be burned")
		verifAssert(after.Amount.Cmp(P.Amount) == 0 && after.RevokeTime == P.RevokeTime, "the existing pillar is untouched")
	}
}
