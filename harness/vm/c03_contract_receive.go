//go:build verif

package vm

import (
	"bytes"
	"math/big"

	"github.com/zenon-network/go-zenon/chain/nom"
	"github.com/zenon-network/go-zenon/common/types"
	"github.com/zenon-network/go-zenon/vm/embedded/definition"
)

// VerifC03ContractReceiveReproduced: a contract receive block delivered by a peer is accepted by the VM only if it
// equals the block the receiver regenerates itself: whatever status data the delivered block claims (with a
// self-consistent hash and the genuine changes hash copied in), acceptance implies the claimed data is the regenerated one.
func VerifC03ContractReceiveReproduced() {
	mkEnv := func() (*c09Env, *nom.AccountBlock) {
		e := &c09Env{contract: types.PlasmaContract}
		e.as = c01Account(types.PlasmaContract, types.QsrTokenStandard, types.QsrTokenStandard, big.NewInt(0), big.NewInt(0))
		e.mom = &c09Momentum{height: 100, ts: 1700000000}
		e.ctx = c09Ctx(e)
		var ben types.Address
		ben[0] = types.UserAddrByte
		send := &nom.AccountBlock{BlockType: nom.BlockTypeUserSend, Version: 1, ChainIdentifier: 1, Height: 5, ToAddress: types.PlasmaContract,
			TokenStandard: types.QsrTokenStandard, Amount: big.NewInt(10 * 100000000), Hash: types.Hash{7}, Data: definition.ABIPlasma.PackMethodPanic(definition.FuseMethodName, ben)}
		send.Address[0] = types.UserAddrByte
		send.Address[1] = 1
		e.send, e.mom.send = send, send
		return e, send
	}
	// the receiver's own regeneration (reference run)
	e1, send := mkEnv()
	o := e1.receive()
	verifAssert(!o.panicked && o.err == nil && o.methodErr == nil, "the genuine call applies")
	G := o.block
	// the delivered variant
	e2, _ := mkEnv()
	B := &nom.AccountBlock{Version: 1, ChainIdentifier: 1, BlockType: nom.BlockTypeContractReceive, Address: types.PlasmaContract, FromBlockHash: send.Hash,
		MomentumAcknowledged: G.MomentumAcknowledged, PreviousHash: G.PreviousHash, Height: G.Height, ChangesHash: G.ChangesHash,
		Data: verifNondetBytes("claimed status data", 8)}
	B.Hash = B.ComputeHash()
	err := c12Contained(func() error { return NewVM(e2.ctx).applyBlock(B) })
	verifReach("accepted", err == nil)
	verifReach("rejected", err != nil)
	if err == nil {
		verifAssert(bytes.Equal(B.Data, G.Data), "accepted => the delivered receive block carries the regenerated status data")
	}
}
