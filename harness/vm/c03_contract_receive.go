//go:build verif

package vm

import (
	"bytes"
	"math/big"

	"github.com/zenon-network/go-zenon/chain/nom"
	"github.com/zenon-network/go-zenon/common/types"
	"github.com/zenon-network/go-zenon/vm/embedded/definition"
)

// VerifC03ContractReceiveReproduced: a contract receive block delivered by a peer is accepted by the VM only if it
// equals the block the receiver regenerates itself: whatever status data the delivered block claims (with a
// self-consistent hash and the genuine changes hash copied in), acceptance implies the claimed data is the regenerated one.
func VerifC03ContractReceiveReproduced() {
	mkEnv := func() (*c09Env, *nom.AccountBlock) {
		e := &c09Env{contract: types.PlasmaContract}
		e.as = c01Account(types.PlasmaContract, types.QsrTokenStandard, types.QsrTokenStandard, big.NewInt(0), big.NewInt(0))
		e.mom = &c09Momentum{height: 100, ts: 1700000000}
		e.ctx = c09Ctx(e)
		var ben types.Address
		ben[0] = types.UserAddrByte
		send := &nom.AccountBlock{BlockType: nom.BlockTypeUserSend, Version: 1, ChainIdentifier: 1, Height: 5, ToAddress: types.PlasmaContract,
			TokenStandard: types.QsrTokenStandard, Amount: big.NewInt(10 * 100000000), Hash: types.Hash{7}, Data: definition.ABIPlasma.PackMethodPanic(definition.FuseMethodName, ben)}
		send.Address[0] = types.UserAddrByte
		send.Address[1] = 1
		e.send, e.mom.send = send, send
		return e, send
	}
	// the receiver's own regeneration (reference run)
	e1, send := mkEnv()
	o := e1.receive()
	verifAssert(!o.panicked && o.err == nil && o.methodErr == nil, "the genuine call applies")
	G := o.block
	// the delivered variant
	e2, _ := mkEnv()
	B := &nom.AccountBlock{Version: 1, ChainIdentifier: 1, BlockType: nom.BlockTypeContractReceive, Address: types.PlasmaContract, FromBlockHash: send.Hash,
		MomentumAcknowledged: G.MomentumAcknowledged, PreviousHash: G.PreviousHash, Height: G.Height, ChangesHash: G.ChangesHash,
		Data: verifNondetBytes("claimed status data", 8)}
	B.Hash = B.ComputeHash()
	err := c12Contained(func() error { return NewVM(e2.ctx).applyBlock(B) })
	verifReach("accepted", err == nil)
	verifReach("rejected", err != nil)
	if err == nil {
		verifAssert(bytes.Equal(B.Data, G.Data), "accepted => the delivered receive block carries the regenerated status data")
	}
}

// VerifC03ContractReceiveDescendantsReproduced: the same for a call that makes the contract send (CancelFuse of an
// expired fusion: one descendant paying the QSR back).  The delivered block carries one descendant whose amount,
// destination, token and hash field are arbitrary; the parent hash is self-consistent.  Acceptance by the VM implies
// that the delivered descendant carries the hash of the regenerated one (the parent's hash covers the descendants'
// hash fields) — and therefore, if that hash matches the delivered descendant's content (the verifier's rule, decided
// by O1-with-descendant), amount, destination and token are the regenerated ones: no value is created in flight.
func VerifC03ContractReceiveDescendantsReproduced() {
	var owner types.Address
	owner[0], owner[1] = types.UserAddrByte, 1
	mkEnv := func() (*c09Env, *nom.AccountBlock) {
		e := &c09Env{contract: types.PlasmaContract}
		e.as = c01Account(types.PlasmaContract, types.QsrTokenStandard, types.QsrTokenStandard, big.NewInt(50*100000000), big.NewInt(0))
		e.mom = &c09Momentum{height: 100000, ts: 1700000000}
		e.ctx = c09Ctx(e)
		E := &definition.FusionInfo{Owner: owner, Id: types.Hash{5}, Amount: big.NewInt(10 * 100000000), ExpirationHeight: 50, Beneficiary: owner}
		verifAssert(E.Save(e.as.Storage()) == nil, "save")
		verifAssert((&definition.FusedAmount{Beneficiary: owner, Amount: big.NewInt(10 * 100000000)}).Save(e.as.Storage()) == nil, "save")
		send := &nom.AccountBlock{BlockType: nom.BlockTypeUserSend, Version: 1, ChainIdentifier: 1, Height: 5, Address: owner, ToAddress: types.PlasmaContract,
			TokenStandard: types.ZnnTokenStandard, Amount: big.NewInt(0), Hash: types.Hash{7}, Data: definition.ABIPlasma.PackMethodPanic(definition.CancelFuseMethodName, types.Hash{5})}
		e.send, e.mom.send = send, send
		return e, send
	}
	e1, send := mkEnv()
	o := e1.receive()
	verifAssert(!o.panicked && o.err == nil && o.methodErr == nil && len(o.block.DescendantBlocks) == 1, "the genuine call applies and pays back")
	G := o.block
	GD := G.DescendantBlocks[0]
	e2, _ := mkEnv()
	D := GD.Copy()
	D.Amount = c01Amount("delivered descendant.Amount")
	copy(D.ToAddress[:], verifNondetBytes("delivered descendant.ToAddress", 20))
	copy(D.TokenStandard[:], verifNondetBytes("delivered descendant.ZTS", 10))
	D.Hash = c03HashVM("delivered descendant.Hash")
	B := &nom.AccountBlock{Version: 1, ChainIdentifier: 1, BlockType: nom.BlockTypeContractReceive, Address: types.PlasmaContract, FromBlockHash: send.Hash,
		MomentumAcknowledged: G.MomentumAcknowledged, PreviousHash: G.PreviousHash, Height: G.Height, ChangesHash: G.ChangesHash, Data: G.Data,
		DescendantBlocks: []*nom.AccountBlock{D}}
	if verifNondetBool("delivered block drops the descendant") {
		B.DescendantBlocks = nil
	}
	B.Hash = B.ComputeHash()
	err := c12Contained(func() error { return NewVM(e2.ctx).applyBlock(B) })
	verifReach("accepted", err == nil)
	verifReach("rejected", err != nil)
	if err == nil {
		verifAssert(len(B.DescendantBlocks) == 1 && D.Hash == GD.Hash, "accepted => the delivered descendant carries the hash of the regenerated descendant")
		if D.Hash == D.ComputeHash() {
			verifReach("accepted with a consistent descendant", true)
			verifAssert(D.Amount.Cmp(GD.Amount) == 0 && D.ToAddress == GD.ToAddress && D.TokenStandard == GD.TokenStandard, "accepted and descendant hash matches its content => amount, destination and token are the regenerated ones")
		}
	}
}
