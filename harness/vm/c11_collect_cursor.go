//go:build verif

package vm

import (
	"math/big"

	"github.com/zenon-network/go-zenon/common/types"
	"github.com/zenon-network/go-zenon/vm/constants"
	"github.com/zenon-network/go-zenon/vm/embedded/definition"
)

// VerifC11CollectOnce: a credited reward is collected exactly once and mints exactly the credited amounts to the caller:
// the first CollectReward issues one mint per non-zero amount (token contract, amount = deposit, receiver = caller) and
// deletes the deposit; a second CollectReward finds nothing; other addresses' deposits are untouched.
func VerifC11CollectOnce() {
	e := c09NewEnv(types.StakeContract)
	var owner, other types.Address
	owner[0], other[0] = types.UserAddrByte, types.UserAddrByte
	copy(owner[1:], verifNondetBytes("deposit.owner", 19))
	copy(other[1:], verifNondetBytes("other.owner", 19))
	verifAssume(owner != other, "two different accounts")
	dz, dq := c01Amount("deposit.znn"), c01Amount("deposit.qsr")
	oz := c01Amount("other.znn")
	verifAssume(dz.Cmp(c10Lim) < 0 && dq.Cmp(c10Lim) < 0 && oz.Cmp(c10Lim) < 0, "amounts far below 2^255")
	verifAssert((&definition.RewardDeposit{Address: &owner, Znn: dz, Qsr: dq}).Save(e.storage()) == nil, "save")
	verifAssert((&definition.RewardDeposit{Address: &other, Znn: oz, Qsr: big.NewInt(0)}).Save(e.storage()) == nil, "save")

	data := definition.ABICommon.PackMethodPanic(definition.CollectRewardMethodName)
	e.c09Send(data, types.ZnnTokenStandard)
	e.send.Address = owner
	if !e.sendAccepted() {
		verifReach("refused at send time (amount attached)", true)
		return
	}
	o := e.receive()
	e.c09CheckWrapper(o, nil, 0)
	if o.panicked || o.block == nil {
		return
	}
	if o.methodErr != nil {
		verifReach("nothing to collect", true)
		verifAssert(dz.Sign() == 0 && dq.Sign() == 0, "collect fails only when nothing is credited")
		return
	}
	verifReach("collected", true)
	wantBlocks := 0
	if dz.Sign() > 0 {
		wantBlocks++
	}
	if dq.Sign() > 0 {
		wantBlocks++
	}
	verifAssert(len(o.block.DescendantBlocks) == wantBlocks, "one mint request per non-zero credited amount")
	mz, mq := big.NewInt(0), big.NewInt(0)
	for _, d := range o.block.DescendantBlocks {
		verifAssert(d.ToAddress == types.TokenContract && d.Amount.Sign() == 0, "rewards are paid by asking the token contract to mint")
		p := new(definition.MintParam)
		verifAssert(definition.ABIToken.UnpackMethod(p, definition.MintMethodName, d.Data) == nil, "mint call data decodes")
		verifAssert(p.ReceiveAddress == owner, "minted to the caller")
		if p.TokenStandard == types.ZnnTokenStandard {
			mz = new(big.Int).Add(mz, p.Amount)
		} else {
			verifAssert(p.TokenStandard == types.QsrTokenStandard, "ZNN or QSR")
			mq = new(big.Int).Add(mq, p.Amount)
		}
	}
	verifAssert(mz.Cmp(dz) == 0 && mq.Cmp(dq) == 0, "exactly the credited amounts are minted")
	left, err := definition.GetRewardDeposit(e.storage(), &owner)
	verifAssert(err == nil && left.Znn.Sign() == 0 && left.Qsr.Sign() == 0, "the deposit is gone after collecting")
	oth, err := definition.GetRewardDeposit(e.storage(), &other)
	verifAssert(err == nil && oth.Znn.Cmp(oz) == 0, "other accounts' credited rewards are untouched")
	// second collect
	e.c09Send(definition.ABICommon.PackMethodPanic(definition.CollectRewardMethodName), types.ZnnTokenStandard)
	e.send.Address = owner
	e.send.Amount = big.NewInt(0)
	o2 := e.receive()
	verifAssert(!o2.panicked && o2.methodErr == constants.ErrNothingToWithdraw && len(o2.block.DescendantBlocks) == 0, "a second collect pays nothing")
}

// VerifC11EpochCursor: the staking contract's reward cursor: an Update rewards exactly the epochs that are due
// (now >= end(epoch) + RewardTimeLimit), each once, in increasing order, and stores the last rewarded epoch; with a
// single active stake entry that entry is credited exactly the epoch's staking budget.
func VerifC11EpochCursor() {
	e := c09NewEnv(types.StakeContract)
	last := int64(verifNondetLen("last rewarded epoch (+1)", 0, 1)) - 1 // -1 = none yet
	verifAssert((&definition.LastEpochUpdate{LastEpoch: last}).Save(e.storage()) == nil, "save")
	one := verifNondetBool("one active stake entry")
	var E *definition.StakeInfo
	if one {
		E = &definition.StakeInfo{Amount: c01Amount("entry.Amount"), WeightedAmount: c01Amount("entry.WeightedAmount"), StartTime: 1600000000 - 5, ExpirationTime: 1 << 39}
		E.StakeAddress[0] = types.UserAddrByte
		E.StakeAddress[9] = 9
		E.Id = types.Hash{3}
		verifAssume(E.WeightedAmount.Sign() > 0 && E.WeightedAmount.Cmp(c10Lim) < 0 && E.Amount.Cmp(c10Lim) < 0, "a live entry has positive weight")
		verifAssert(E.Save(e.storage()) == nil, "save")
	}
	e.c09Send(definition.ABICommon.PackMethodPanic(definition.UpdateMethodName), types.ZnnTokenStandard)
	e.send.Amount = big.NewInt(0)
	verifAssume(e.sendAccepted(), "update call accepted")
	o := e.receive()
	e.c09CheckWrapper(o, nil, 0)
	if o.panicked || o.block == nil || o.methodErr != nil {
		verifReach("update refused (too recent)", o.methodErr != nil)
		return
	}
	after, err := definition.GetLastEpochUpdate(e.storage())
	verifAssert(err == nil, "cursor readable")
	// reference: epoch k (24 h from genesis 1600000000) is due iff now >= end(k) + RewardTimeLimit
	now := int64(e.mom.ts)
	want := last
	for k := last + 1; k < last+4; k++ {
		end := int64(1600000000) + (k+1)*86400
		if now >= end+constants.RewardTimeLimit {
			want = k
		} else {
			break
		}
	}
	verifReach("one epoch rewarded", after.LastEpoch == last+1)
	verifReach("nothing due", after.LastEpoch == last)
	verifAssert(after.LastEpoch == want, "the cursor advances over exactly the due epochs")
	if one {
		dep, err := definition.GetRewardDeposit(e.storage(), &E.StakeAddress)
		verifAssert(err == nil, "deposit readable")
		total := big.NewInt(0)
		for k := last + 1; k <= want; k++ {
			total = new(big.Int).Add(total, constants.StakeQsrRewardPerEpoch(uint64(k)))
			h, err := definition.GetRewardDepositHistory(e.storage(), uint64(k), &E.StakeAddress)
			verifAssert(err == nil && h.Qsr.Cmp(constants.StakeQsrRewardPerEpoch(uint64(k))) == 0, "each due epoch is rewarded once with its budget")
		}
		verifAssert(dep.Qsr.Cmp(total) == 0 && dep.Znn.Sign() == 0, "credited = sum of the due epochs' budgets (never more than the emission)")
	}
}
