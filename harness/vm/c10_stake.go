//go:build verif

package vm

import (
	"math/big"

	"github.com/zenon-network/go-zenon/common/types"
	"github.com/zenon-network/go-zenon/vm/constants"
	"github.com/zenon-network/go-zenon/vm/embedded/definition"
)

var c10Lim = new(big.Int).Lsh(big.NewInt(1), 200)

// VerifC10StakeCancel: one step of the staking contract from an arbitrary state holding one stake entry:
// the contract stays backed, a stake is created with the sender as owner and expiration = now + stake time
// (1..12 units of 30 days), and a stake is paid out only to its owner, not before its expiration, and once
// (afterwards the entry holds 0).
func VerifC10StakeCancel() {
	e := c09NewEnv(types.StakeContract)
	E := &definition.StakeInfo{Amount: c01Amount("entry.Amount"), WeightedAmount: c01Amount("entry.WeightedAmount"),
		StartTime: int64(verifNondetU64("entry.StartTime")), RevokeTime: int64(verifNondetU64("entry.RevokeTime")), ExpirationTime: int64(verifNondetU64("entry.ExpirationTime"))}
	E.StakeAddress[0] = types.UserAddrByte
	copy(E.StakeAddress[1:], verifNondetBytes("entry.Owner", 19))
	E.Id = c03HashVM("entry.Id")
	verifAssume(E.StartTime >= 0 && E.RevokeTime >= 0 && E.ExpirationTime >= 0 && E.StartTime < 1<<40 && E.RevokeTime < 1<<40 && E.ExpirationTime < 1<<40, "entry times are momentum timestamps")
	verifAssume(E.Amount.Cmp(c10Lim) < 0 && E.WeightedAmount.Cmp(c10Lim) < 0, "amounts far below 2^255")
	verifAssert(E.Save(e.storage()) == nil, "save")
	others := c01Amount("other stakes")
	B := c01Amount("contract znn balance")
	liabilities := new(big.Int).Add(E.Amount, others)
	verifAssume(B.Cmp(liabilities) >= 0 && B.Cmp(c10Lim) < 0, "Inv: contract balance >= sum of all active stakes")
	verifAssert(e.as.SetBalance(types.ZnnTokenStandard, B) == nil, "set")

	cancel := verifNondetBool("call is Cancel (else Stake)")
	var data []byte
	var stakeTime int64
	if cancel {
		data = definition.ABIStake.PackMethodPanic(definition.CancelStakeMethodName, c03HashVM("cancel.id"))
	} else {
		stakeTime = int64(verifNondetU64("stake time"))
		data = definition.ABIStake.PackMethodPanic(definition.StakeMethodName, stakeTime)
	}
	e.c09Send(data, types.ZnnTokenStandard)
	verifAssume(e.send.Amount.Cmp(c10Lim) < 0, "amount far below 2^255")
	if !e.sendAccepted() {
		verifReach("refused at send time", true)
		return
	}
	o := e.receive()
	e.c09CheckWrapper(o, map[types.ZenonTokenStandard]*big.Int{types.ZnnTokenStandard: B}, 0)
	if o.panicked || o.block == nil {
		return
	}
	now := int64(e.mom.ts)
	entryAfter, errE := definition.GetStakeInfo(e.storage(), E.Id, E.StakeAddress)
	verifAssert(errE == nil, "the pre-existing entry is still readable (entries are never deleted by these methods)")
	balAfter := c09Bal(e.as, types.ZnnTokenStandard)
	if cancel {
		if o.methodErr == nil {
			verifReach("cancel applied", true)
			d := o.block.DescendantBlocks
			verifAssert(len(d) == 1 && d[0].TokenStandard == types.ZnnTokenStandard && d[0].ToAddress == e.send.Address, "cancel pays ZNN to the caller")
			{
				// E is the only entry in storage, so an applied cancel released E
				verifAssert(entryAfter.RevokeTime == now, "the released entry records its revocation")
				verifAssert(e.send.Address == E.StakeAddress, "a stake is released only to its owner")
				verifAssert(now >= E.ExpirationTime, "a stake is not released before its expiration time")
				verifAssert(d[0].Amount.Cmp(E.Amount) == 0, "exactly the staked amount is paid out")
				verifAssert(entryAfter.Amount.Sign() == 0, "afterwards the entry holds 0: a second cancel pays nothing")
				verifAssert(balAfter.Cmp(others) >= 0, "the contract still backs all other stakes")
			}
		} else {
			verifReach("cancel refused", true)
			verifAssert(entryAfter.Amount.Cmp(E.Amount) == 0 && entryAfter.RevokeTime == E.RevokeTime, "a refused cancel changes nothing")
		}
	} else if o.methodErr == nil {
		verifReach("stake applied", true)
		created, errC := definition.GetStakeInfo(e.storage(), e.send.Hash, e.send.Address)
		verifAssert(errC == nil && created.Amount.Cmp(e.send.Amount) == 0 && created.StakeAddress == e.send.Address, "new entry: owner = sender, amount = sent")
		verifAssert(created.ExpirationTime == now+stakeTime && created.StartTime == now && created.RevokeTime == 0, "expiration = now + stake time")
		verifAssert(stakeTime >= constants.StakeTimeMinSec && stakeTime <= constants.StakeTimeMaxSec && stakeTime%constants.StakeTimeUnitSec == 0, "stake time is 1..12 units of 30 days")
		verifAssert(e.send.Amount.Cmp(constants.StakeMinAmount) >= 0, "at least the minimum stake")
		if e.send.Hash != E.Id || e.send.Address != E.StakeAddress {
			verifAssert(entryAfter.Amount.Cmp(E.Amount) == 0, "other entries untouched")
			verifAssert(balAfter.Cmp(new(big.Int).Add(liabilities, e.send.Amount)) >= 0, "the contract backs all stakes incl. the new one")
		}
	}
}
