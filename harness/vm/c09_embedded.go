//go:build verif

package vm

import (
	"math/big"
	"time"

	"github.com/zenon-network/go-zenon/chain/account"
	"github.com/zenon-network/go-zenon/chain/nom"
	"github.com/zenon-network/go-zenon/chain/store"
	"github.com/zenon-network/go-zenon/common"
	"github.com/zenon-network/go-zenon/common/db"
	"github.com/zenon-network/go-zenon/common/types"
	"github.com/zenon-network/go-zenon/consensus/api"
	"github.com/zenon-network/go-zenon/vm/embedded"
	"github.com/zenon-network/go-zenon/vm/embedded/definition"
	"github.com/zenon-network/go-zenon/vm/vm_context"
)

// ---- environment of one embedded-contract receive: the real VM wrapper, the real vm_context, the real account
// store of the contract over the real in-memory db; the momentum store is a model.
type c09Momentum struct {
	store.Momentum
	send      *nom.AccountBlock
	height    uint64
	ts        uint64
	sporks    [3]bool       // accelerator, htlc, bridge&liquidity
	confirmed store.Account // confirmed state of the account under test (sender-side obligations)
	pillars   []*definition.PillarInfo
}

func (m *c09Momentum) ChainIdentifier() uint64 { return 1 }
func (m *c09Momentum) GetAccountBlockByHash(h types.Hash) (*nom.AccountBlock, error) {
	if m.send != nil && m.send.Hash == h {
		return m.send, nil
	}
	return nil, nil
}
func (m *c09Momentum) GetFrontierMomentum() (*nom.Momentum, error) {
	t := time.Unix(int64(m.ts), 0)
	return &nom.Momentum{Height: m.height, TimestampUnix: m.ts, Timestamp: &t, Hash: types.Hash{9}}, nil
}
func (m *c09Momentum) GetGenesisMomentum() *nom.Momentum {
	t := time.Unix(1600000000, 0)
	return &nom.Momentum{Height: 1, TimestampUnix: 1600000000, Timestamp: &t}
}
func (m *c09Momentum) IsSporkActive(s *types.ImplementedSpork) (bool, error) {
	switch s.SporkId {
	case types.AcceleratorSpork.SporkId:
		return m.sporks[0], nil
	case types.HtlcSpork.SporkId:
		return m.sporks[1], nil
	case types.BridgeAndLiquiditySpork.SporkId:
		return m.sporks[2], nil
	}
	return false, nil
}

// active pillars at the frontier: 0..2 pillars with fixed names and distinct owners (the voting code only counts them
// and looks them up by name / owner)
func (m *c09Momentum) GetActivePillars() ([]*definition.PillarInfo, error) {
	if m.pillars == nil {
		n := verifNondetLen("active pillars", 0, 2)
		m.pillars = make([]*definition.PillarInfo, n)
		for i := range m.pillars {
			p := &definition.PillarInfo{Name: []string{"p0", "p1"}[i], PillarType: definition.NormalPillarType}
			p.StakeAddress[0], p.BlockProducingAddress[0], p.RewardWithdrawAddress[0] = types.UserAddrByte, types.UserAddrByte, types.UserAddrByte
			p.StakeAddress[19], p.BlockProducingAddress[19], p.RewardWithdrawAddress[19] = byte(1+i), byte(11+i), byte(21+i)
			m.pillars[i] = p
		}
	}
	return m.pillars, nil
}

// pillar reader (consensus statistics): a model; only the epoch ticker is concrete (24 h epochs from a fixed genesis)
type c09Pillars struct {
	api.PillarReader
	stats   *api.EpochStats
	details map[string]*types.PillarDelegationDetail
}

func (p *c09Pillars) EpochTicker() common.Ticker {
	return common.NewTicker(time.Unix(1600000000, 0), 24*time.Hour)
}

// consensus statistics of an epoch: an empty pillar set unless the obligation installs its own (C11 pillar rewards)
func (p *c09Pillars) EpochStats(epoch uint64) (*api.EpochStats, error) {
	if p.stats != nil {
		st := *p.stats
		st.Epoch = epoch
		return &st, nil
	}
	return &api.EpochStats{Epoch: epoch, Pillars: map[string]*api.EpochPillarStats{}, TotalWeight: big.NewInt(0)}, nil
}
func (p *c09Pillars) GetPillarDelegationsByEpoch(epoch uint64) (map[string]*types.PillarDelegationDetail, error) {
	if p.details != nil {
		return p.details, nil
	}
	return map[string]*types.PillarDelegationDetail{}, nil
}

type c09Env struct {
	contract types.Address
	as       store.Account
	ctx      vm_context.AccountVmContext
	mom      *c09Momentum
	send     *nom.AccountBlock
	pillars  *c09Pillars
}

func c09NewEnv(contract types.Address) *c09Env {
	e := &c09Env{contract: contract}
	e.as = account.NewAccountStore(contract, db.NewMemDB())
	e.mom = &c09Momentum{height: verifNondetU64("frontier height"), ts: verifNondetU64("frontier timestamp")}
	verifAssume(e.mom.height >= 2 && e.mom.height < 1<<60 && e.mom.ts >= 1600000000 && e.mom.ts < 1<<40, "frontier momentum: height in [2,2^60), time after 2020")
	if k := verifParam("epochs", 0); k > 0 {
		// bound for the reward Update loops: the frontier lies within the first k epochs after genesis
		verifAssume(e.mom.ts < uint64(1600000000+k*86400), "frontier within the first k epochs (bounds the per-epoch reward loops)")
	}
	e.mom.sporks = [3]bool{verifNondetBool("accelerator spork active"), verifNondetBool("htlc spork active"), verifNondetBool("bridge spork active")}
	e.pillars = &c09Pillars{}
	e.ctx = vm_context.NewAccountContext(e.mom, e.as, e.pillars)
	return e
}

func (e *c09Env) storage() db.DB { return e.as.Storage() }

func c09Ctx(e *c09Env) vm_context.AccountVmContext {
	return vm_context.NewAccountContext(e.mom, e.as, &c09Pillars{})
}

// c09Send: an arbitrary send block to the contract with the given call data
func (e *c09Env) c09Send(data []byte, token types.ZenonTokenStandard) *nom.AccountBlock {
	b := &nom.AccountBlock{BlockType: nom.BlockTypeUserSend, Version: 1, ChainIdentifier: 1, Height: 5, ToAddress: e.contract, TokenStandard: token, Data: data}
	b.Address[0] = types.UserAddrByte
	copy(b.Address[1:], verifNondetBytes("sender", 19))
	b.Hash = c03HashVM("send.Hash")
	b.Amount = c01Amount("send.Amount")
	verifAssume(b.Amount.Cmp(c01Two255) < 0, "verifier: amount < 2^255 (C03)")
	e.send = b
	e.mom.send = b
	return b
}

type c09Outcome struct {
	block     *nom.AccountBlock
	methodErr error
	err       error
	panicked  bool
}

func (e *c09Env) receive() (o c09Outcome) {
	if verifParam("debug", 0) == 0 {
		defer func() {
			if r := recover(); r != nil {
				o.panicked = true
			}
		}()
	}
	o.block, o.methodErr, o.err = NewVM(e.ctx).generateEmbeddedReceive(e.send.Hash)
	return
}

// sendAccepted: the send-time validation the network applied to the send block (vm.applySend on the sender's side)
func (e *c09Env) sendAccepted() bool {
	m, err := embedded.GetEmbeddedMethod(e.ctx, e.send.ToAddress, e.send.Data)
	if err != nil {
		return false
	}
	return m.ValidateSendBlock(e.send) == nil
}

func c09Bal(as store.Account, t types.ZenonTokenStandard) *big.Int {
	b, err := as.GetBalance(t)
	verifAssert(err == nil, "balance readable")
	return b
}

// c09CheckWrapper: the obligations every embedded call has to meet (C09 / C01-O3): no panic escapes, the receive
// block is produced, the contract's inbox cursor advances by one, and the call is either applied or exactly refunded
// with balances conserved: balance' = balance + received - sum(descendant sends), per token.
func (e *c09Env) c09CheckWrapper(o c09Outcome, before map[types.ZenonTokenStandard]*big.Int, seqBefore uint64) {
	verifAssert(!o.panicked, "no panic escapes the receive of an accepted call")
	if o.panicked {
		return
	}
	verifAssert(o.err == nil && o.block != nil, "the receive block is produced (no internal error)")
	verifAssert(o.block.BlockType == nom.BlockTypeContractReceive && o.block.FromBlockHash == e.send.Hash && o.block.Address == e.contract, "receive block names the send and the contract")
	for t, b := range before {
		out := big.NewInt(0)
		for _, d := range o.block.DescendantBlocks {
			if d.TokenStandard == t {
				out = new(big.Int).Add(out, d.Amount)
			}
		}
		in := big.NewInt(0)
		if e.send.TokenStandard == t {
			in = e.send.Amount
		}
		want := new(big.Int).Sub(new(big.Int).Add(b, in), out)
		verifAssert(c09Bal(e.as, t).Cmp(want) == 0, "contract balance' = balance + received - sent out (per token)")
	}
	for _, d := range o.block.DescendantBlocks {
		verifAssert(d.Amount != nil && d.Amount.Sign() >= 0 && d.Amount.Cmp(c01Two255) < 0, "descendant amounts are valid (0 <= a < 2^255): they pass the verifier, the inbox is not wedged")
		verifAssert(d.Address == e.contract && d.BlockType == nom.BlockTypeContractSend, "descendants are sends of the contract")
	}
	if o.methodErr != nil {
		verifReach("call failed and was rolled back", true)
		if e.send.Amount.Sign() > 0 {
			verifAssert(len(o.block.DescendantBlocks) == 1, "a failed call with value is refunded by exactly one send")
			d := o.block.DescendantBlocks[0]
			verifAssert(d.ToAddress == e.send.Address && d.TokenStandard == e.send.TokenStandard && d.Amount.Cmp(e.send.Amount) == 0, "refund returns exactly the sent amount to the sender")
		} else {
			verifAssert(len(o.block.DescendantBlocks) == 0, "a failed call without value sends nothing")
		}
	}
}

// VerifC09HostileCallAnyContract: hostile call data (raw symbolic bytes, one of the word-aligned lengths) with any
// amount of ZNN/QSR sent to one of the embedded contracts (parameter `contract`), under every spork regime, on an
// empty contract state: if the network accepted the send, the receive terminates without panic and applies or refunds.
func VerifC09HostileCallAnyContract() {
	contracts := []types.Address{types.PlasmaContract, types.StakeContract, types.TokenContract, types.SentinelContract, types.PillarContract,
		types.SporkContract, types.HtlcContract, types.SwapContract, types.AcceleratorContract, types.LiquidityContract, types.BridgeContract}
	e := c09NewEnv(contracts[verifParam("contract", 0)])
	spork := types.Address{}
	spork[0] = types.UserAddrByte
	spork[5] = 5
	types.SporkAddress = &spork
	tok := []types.ZenonTokenStandard{types.ZnnTokenStandard, types.QsrTokenStandard}[verifNondetLen("token (0 znn, 1 qsr)", 0, 1)]
	words := verifNondetLen("argument words", 0, verifParam("words", 3))
	e.c09Send(verifNondetBytes("call data", 4+32*words), tok)
	bz, bq := c01Amount("contract znn"), c01Amount("contract qsr")
	lim := new(big.Int).Lsh(big.NewInt(1), 200)
	verifAssume(bz.Cmp(lim) < 0 && bq.Cmp(lim) < 0 && e.send.Amount.Cmp(lim) < 0, "Inv: balances and amounts far below 2^255")
	verifAssert(e.as.SetBalance(types.ZnnTokenStandard, bz) == nil && e.as.SetBalance(types.QsrTokenStandard, bq) == nil, "set")
	if !e.sendAccepted() {
		verifReach("send refused at send time", true)
		return
	}
	verifReach("send accepted", true)
	o := e.receive()
	e.c09CheckWrapper(o, map[types.ZenonTokenStandard]*big.Int{types.ZnnTokenStandard: bz, types.QsrTokenStandard: bq}, 0)
}
