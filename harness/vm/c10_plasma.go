//go:build verif

package vm

import (
	"math/big"

	"github.com/zenon-network/go-zenon/common/types"
	"github.com/zenon-network/go-zenon/vm/constants"
	"github.com/zenon-network/go-zenon/vm/embedded/definition"
)

// VerifC09PlasmaHostileCall: any call data of 4+32 bytes sent to the plasma contract with any amount/token: if the
// network accepted the send, producing the receive terminates without panic and either applies the call or refunds.
func VerifC09PlasmaHostileCall() {
	e := c09NewEnv(types.PlasmaContract)
	tok := []types.ZenonTokenStandard{types.ZnnTokenStandard, types.QsrTokenStandard}[verifNondetLen("token (0 znn, 1 qsr)", 0, 1)]
	e.c09Send(verifNondetBytes("call data", 36), tok)
	// arbitrary contract state for the entry the call may touch is set up by the C10 obligation; here the storage is empty
	bz, bq := c01Amount("contract znn"), c01Amount("contract qsr")
	verifAssume(bz.Cmp(c01Two255) < 0 && bq.Cmp(c01Two255) < 0 && new(big.Int).Add(bq, e.send.Amount).Cmp(c01Two255) < 0 && new(big.Int).Add(bz, e.send.Amount).Cmp(c01Two255) < 0, "Inv: balances + in-flight below 2^255")
	verifAssert(e.as.SetBalance(types.ZnnTokenStandard, bz) == nil && e.as.SetBalance(types.QsrTokenStandard, bq) == nil, "set")
	if !e.sendAccepted() {
		verifReach("send refused at send time", true)
		return
	}
	verifReach("send accepted", true)
	o := e.receive()
	e.c09CheckWrapper(o, map[types.ZenonTokenStandard]*big.Int{types.ZnnTokenStandard: bz, types.QsrTokenStandard: bq}, 0)
}

// VerifC10PlasmaFuseCancel: one step of the plasma contract from an arbitrary state holding one fusion entry:
// the contract stays fully backed (QSR balance >= sum of entries), FusedAmount(beneficiary) tracks the entries,
// and a fusion is released only to its owner, not before its expiration height, and only once.
func VerifC10PlasmaFuseCancel() {
	e := c09NewEnv(types.PlasmaContract)
	// pre-state: one entry E plus unspecified other entries summarised by `rest`
	E := &definition.FusionInfo{Amount: c01Amount("entry.Amount"), ExpirationHeight: verifNondetU64("entry.ExpirationHeight")}
	E.Owner[0] = types.UserAddrByte
	copy(E.Owner[1:], verifNondetBytes("entry.Owner", 19))
	E.Id = c03HashVM("entry.Id")
	copy(E.Beneficiary[:], verifNondetBytes("entry.Beneficiary", 20))
	rest := c01Amount("other entries of the same beneficiary")
	others := c01Amount("entries of other beneficiaries")
	verifAssume(E.Amount.Sign() > 0, "entries hold a positive amount (Fuse requires >= FuseMinAmount)")
	verifAssert(E.Save(e.storage()) == nil, "save")
	fb := &definition.FusedAmount{Beneficiary: E.Beneficiary, Amount: new(big.Int).Add(E.Amount, rest)}
	verifAssert(fb.Save(e.storage()) == nil, "save")
	liabilities := new(big.Int).Add(new(big.Int).Add(E.Amount, rest), others)
	B := c01Amount("contract qsr balance")
	verifAssume(B.Cmp(liabilities) >= 0 && B.Cmp(new(big.Int).Lsh(big.NewInt(1), 200)) < 0, "Inv: contract balance >= sum of all fusion entries; amounts far below 2^255")
	verifAssert(e.as.SetBalance(types.QsrTokenStandard, B) == nil, "set")

	cancel := verifNondetBool("call is CancelFuse (else Fuse)")
	var data []byte
	if cancel {
		id := c03HashVM("cancel.id")
		data = definition.ABIPlasma.PackMethodPanic(definition.CancelFuseMethodName, id)
	} else {
		var ben types.Address
		copy(ben[:], verifNondetBytes("fuse.beneficiary", 20))
		data = definition.ABIPlasma.PackMethodPanic(definition.FuseMethodName, ben)
	}
	e.c09Send(data, types.QsrTokenStandard)
	verifAssume(e.send.Amount.Cmp(new(big.Int).Lsh(big.NewInt(1), 200)) < 0, "amount far below 2^255")
	if !e.sendAccepted() {
		return
	}
	o := e.receive()
	e.c09CheckWrapper(o, map[types.ZenonTokenStandard]*big.Int{types.QsrTokenStandard: B}, 0)
	if o.panicked || o.block == nil {
		return
	}
	after, err := definition.GetFusedAmount(e.storage(), E.Beneficiary)
	verifAssert(err == nil, "fused amount readable")
	entryAfter, errE := definition.GetFusionInfo(e.storage(), E.Owner, E.Id)
	balAfter := c09Bal(e.as, types.QsrTokenStandard)
	if cancel {
		if o.methodErr == nil {
			verifReach("cancel applied", true)
			// applied => it was E (the only entry the pre-state fixes) or an entry we do not know: restrict to E via its key
			d := o.block.DescendantBlocks
			verifAssert(len(d) == 1 && d[0].ToAddress == e.send.Address && d[0].TokenStandard == types.QsrTokenStandard, "cancel pays QSR to the caller")
			// E is the only entry in storage, so an applied cancel released E: it must be gone afterwards (released once)
			verifAssert(errE == constants.ErrDataNonExistent, "the released entry is deleted")
			if errE == constants.ErrDataNonExistent {
				verifAssert(e.send.Address == E.Owner, "a fusion is released only to its owner")
				verifAssert(e.mom.height >= E.ExpirationHeight, "a fusion is not released before its expiration height")
				verifAssert(d[0].Amount.Cmp(E.Amount) == 0, "exactly the fused amount is paid out")
				verifAssert(after.Amount.Cmp(rest) == 0, "FusedAmount(beneficiary) drops by exactly the entry")
				verifAssert(balAfter.Cmp(new(big.Int).Add(rest, others)) >= 0, "the contract still backs all remaining entries")
			}
		} else {
			verifReach("cancel refused", true)
			verifAssert(errE == nil && entryAfter.Amount.Cmp(E.Amount) == 0 && after.Amount.Cmp(fb.Amount) == 0, "a refused cancel changes nothing")
		}
	} else if o.methodErr == nil {
		verifReach("fuse applied", true)
		created, errC := definition.GetFusionInfo(e.storage(), e.send.Address, e.send.Hash)
		verifAssert(errC == nil && created.Amount.Cmp(e.send.Amount) == 0 && created.ExpirationHeight == e.mom.height+constants.FuseExpiration, "new entry: owner = sender, amount = sent, expiration = height + FuseExpiration")
		verifAssert(balAfter.Cmp(new(big.Int).Add(liabilities, e.send.Amount)) >= 0, "the contract backs all entries incl. the new one")
		if created.Beneficiary == E.Beneficiary {
			verifAssert(after.Amount.Cmp(new(big.Int).Add(fb.Amount, e.send.Amount)) == 0, "FusedAmount(beneficiary) grows by exactly the sent amount")
		} else {
			verifAssert(after.Amount.Cmp(fb.Amount) == 0, "other beneficiaries are untouched")
		}
	}
}
