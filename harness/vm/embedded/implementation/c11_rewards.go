//go:build verif

package implementation

import (
	"math/big"

	"github.com/zenon-network/go-zenon/consensus/api"
	"github.com/zenon-network/go-zenon/vm/constants"
)

// VerifC11EmissionSplit: for every epoch the per-contract reward budgets add up to no more than the
// protocol emission of that epoch (ZNN and QSR), computed without int64 overflow.
func VerifC11EmissionSplit() {
	epoch := verifNondetU64("epoch")
	znn := constants.NetworkZnnRewardPerEpoch(epoch)
	qsr := constants.NetworkQsrRewardPerEpoch(epoch)
	verifAssert(znn > 0 && qsr > 0, "emission is positive")
	// the emission schedule: entry epoch/30 of the protocol table, the last entry for all later epochs
	tick := epoch / constants.RewardTickDurationInEpochs
	zi, qi := tick, tick
	if zi >= uint64(len(constants.NetworkZnnRewardConfig)) {
		zi = uint64(len(constants.NetworkZnnRewardConfig)) - 1
	}
	if qi >= uint64(len(constants.NetworkQsrRewardConfig)) {
		qi = uint64(len(constants.NetworkQsrRewardConfig)) - 1
	}
	verifAssert(znn == constants.NetworkZnnRewardConfig[zi], "ZNN emission follows the schedule table (last entry beyond the table)")
	verifAssert(qsr == constants.NetworkQsrRewardConfig[qi], "QSR emission follows the schedule table (last entry beyond the table)")
	// no overflow of the int64 products inside the helpers: emission * 100 < 2^63
	verifAssert(znn < (1<<62)/100 && qsr < (1<<62)/100, "emission * percentage cannot overflow int64")

	deleg, prod := constants.PillarRewardPerMomentum(epoch)
	sZnn, sQsr := constants.SentinelRewardForEpoch(epoch)
	lZnn, lQsr := constants.LiquidityRewardForEpoch(epoch)
	stQsr := constants.StakeQsrRewardPerEpoch(epoch)

	mpe := big.NewInt(constants.MomentumsPerEpoch)
	pillars := new(big.Int).Mul(new(big.Int).Add(deleg, prod), mpe)
	totalZnn := new(big.Int).Add(pillars, new(big.Int).Add(sZnn, lZnn))
	totalQsr := new(big.Int).Add(stQsr, new(big.Int).Add(sQsr, lQsr))
	verifReach("first tick", epoch < 30)
	verifReach("last tick", epoch > 100000)
	verifAssert(totalZnn.Cmp(big.NewInt(znn)) <= 0, "pillar + sentinel + liquidity ZNN budgets <= ZNN emission of the epoch")
	verifAssert(totalQsr.Cmp(big.NewInt(qsr)) <= 0, "stake + sentinel + liquidity QSR budgets <= QSR emission of the epoch")
	verifAssert(deleg.Sign() >= 0 && prod.Sign() >= 0 && sZnn.Sign() >= 0 && sQsr.Sign() >= 0 && lZnn.Sign() >= 0 && lQsr.Sign() >= 0 && stQsr.Sign() >= 0, "budgets are non-negative")
}

func c11Stats(names []string) *api.EpochStats {
	st := &api.EpochStats{Epoch: verifNondetU64("epoch"), Pillars: map[string]*api.EpochPillarStats{}}
	sumW := big.NewInt(0)
	var sumExp uint64
	for _, n := range names {
		p := &api.EpochPillarStats{Name: n}
		p.BlockNum = verifNondetU64(n + ".BlockNum")
		p.ExceptedBlockNum = verifNondetU64(n + ".ExpectedBlockNum")
		p.Weight = verifNondetBig(n + ".Weight")
		verifAssume(p.Weight.Sign() >= 0, "weights are sums of balances (>= 0)")
		verifAssume(p.ExceptedBlockNum <= uint64(constants.MomentumsPerEpoch), "a pillar is expected to produce at most one momentum per slot of the epoch")
		verifAssume(p.BlockNum <= p.ExceptedBlockNum, "consensus statistics: produced <= expected")
		sumExp += p.ExceptedBlockNum
		sumW = new(big.Int).Add(sumW, p.Weight)
		st.Pillars[n] = p
	}
	verifAssume(sumExp <= uint64(constants.MomentumsPerEpoch), "consensus statistics: expected momentums of all pillars <= momentums per epoch")
	st.TotalWeight = verifNondetBig("TotalWeight")
	verifAssume(st.TotalWeight.Cmp(sumW) >= 0, "consensus statistics: TotalWeight >= sum of the listed pillars' weights")
	return st
}

func c11PillarTotal(names []string) {
	st := c11Stats(names)
	deleg, prod := constants.PillarRewardPerMomentum(st.Epoch)
	budget := new(big.Int).Mul(new(big.Int).Add(deleg, prod), big.NewInt(constants.MomentumsPerEpoch))
	sum := big.NewInt(0)
	for _, n := range names {
		r := computePillarRewardForEpoch(st, n)
		verifAssert(r.TotalReward.Sign() >= 0 && r.BlockReward.Sign() >= 0 && r.DelegationReward.Sign() >= 0, "rewards are non-negative")
		verifAssert(new(big.Int).Add(r.BlockReward, r.DelegationReward).Cmp(r.TotalReward) == 0, "total = block + delegation")
		sum = new(big.Int).Add(sum, r.TotalReward)
	}
	verifReach("some reward", sum.Sign() > 0)
	verifAssert(sum.Cmp(budget) <= 0, "sum of pillar rewards of an epoch <= pillar budget of the epoch")
}

// VerifC11PillarEpochTotal2 / 3: Σ_p TotalReward(p) ≤ (delegation+producing per momentum)·MomentumsPerEpoch.
func VerifC11PillarEpochTotal2() { c11PillarTotal([]string{"a", "b"}) }
func VerifC11PillarEpochTotal3() { c11PillarTotal([]string{"a", "b", "c"}) }

// VerifC11BackerSplit: the split of one pillar's reward between the pillar and its backers
// (the arithmetic of computeDetailedPillarReward, restated on the same operations): never gives out more
// than the pillar earned.  The real loop is exercised through the contract harness of C10/C09.
func VerifC11BackerSplit() {
	block := verifNondetBig("BlockReward")
	deleg := verifNondetBig("DelegationReward")
	verifAssume(block.Sign() >= 0 && deleg.Sign() >= 0, "rewards non-negative (VerifC11PillarEpochTotal)")
	pb := verifNondetU8("GiveBlockRewardPercentage")
	pd := verifNondetU8("GiveDelegateRewardPercentage")
	verifAssume(pb <= 100 && pd <= 100, "checkPillarPercentages: percentages <= 100")
	total := new(big.Int).Add(block, deleg)

	toGive := big.NewInt(0)
	tmp := big.NewInt(int64(pb))
	tmp.Mul(tmp, block)
	toGive.Add(toGive, tmp)
	tmp.SetInt64(int64(pd))
	tmp.Mul(tmp, deleg)
	toGive.Add(toGive, tmp)
	toGive.Quo(toGive, big.NewInt(100))
	own := new(big.Int).Sub(total, toGive)
	verifAssert(toGive.Sign() >= 0 && own.Sign() >= 0, "pillar keeps a non-negative share")

	w1 := verifNondetBig("backer1")
	w2 := verifNondetBig("backer2")
	verifAssume(w1.Sign() >= 0 && w2.Sign() >= 0, "backer balances >= 0")
	bsum := new(big.Int).Add(w1, w2)
	if bsum.Sign() == 0 {
		return
	}
	s1 := new(big.Int).Quo(new(big.Int).Mul(toGive, w1), bsum)
	s2 := new(big.Int).Quo(new(big.Int).Mul(toGive, w2), bsum)
	verifReach("split", true)
	verifAssert(new(big.Int).Add(s1, s2).Cmp(toGive) <= 0, "backers together receive at most toGive")
	verifAssert(new(big.Int).Add(own, new(big.Int).Add(s1, s2)).Cmp(total) <= 0, "pillar + backers <= pillar's epoch reward")
}
