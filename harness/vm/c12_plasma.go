//go:build verif

package vm

import (
	"math/big"

	"github.com/zenon-network/go-zenon/chain/nom"
	"github.com/zenon-network/go-zenon/chain/store"
	"github.com/zenon-network/go-zenon/common/types"
	"github.com/zenon-network/go-zenon/vm/constants"
	"github.com/zenon-network/go-zenon/vm/vm_context"
)

// VerifC12DifficultyToPlasma: PoW plasma = min(⌊d/1500⌋, cap), monotone, and the
// advertised difficulty for a plasma amount really yields that amount.
func VerifC12DifficultyToPlasma() {
	d := verifNondetU64("d")
	e := verifNondetU64("e")
	p := DifficultyToPlasma(d)

	// reference in mathematical integers
	ref := new(big.Int).Quo(new(big.Int).SetUint64(d), big.NewInt(1500))
	cap := big.NewInt(94500) // 4.5 * 21000, restated from the protocol constants
	if ref.Cmp(cap) > 0 {
		ref = cap
	}
	verifAssert(new(big.Int).SetUint64(p).Cmp(ref) == 0, "DifficultyToPlasma = min(d/1500, 94500)")
	verifAssert(p <= constants.MaxPoWPlasmaForAccountBlock, "PoW plasma never exceeds the PoW cap")
	if d <= e {
		verifAssert(p <= DifficultyToPlasma(e), "DifficultyToPlasma is monotone")
	}
	verifReach("capped", d > constants.MaxDifficultyForAccountBlock)
	verifReach("below cap", d > 0 && d <= constants.MaxDifficultyForAccountBlock)

	// round trip of the helper wallets use
	q := verifNondetU64("q")
	diff, err := GetDifficultyForPlasma(q)
	if err == nil {
		verifReach("difficulty for plasma ok", q > 0)
		verifAssert(DifficultyToPlasma(diff) == q, "DifficultyToPlasma(GetDifficultyForPlasma(q)) = q")
	} else {
		verifAssert(q > constants.MaxPoWPlasmaForAccountBlock, "GetDifficultyForPlasma refuses only above the cap")
	}
}

// VerifC12FusedAmountToPlasma: fused plasma = min(⌊a/1e8⌋, 5000)·2100, 0 for a ≤ 0 or nil.
func VerifC12FusedAmountToPlasma() {
	var a *big.Int
	if verifNondetBool("amount is nil") {
		a = nil
	} else {
		a = verifNondetBig("amount")
	}
	p := FussedAmountToPlasma(a)
	if a == nil || a.Sign() <= 0 {
		verifReach("non-positive", true)
		verifAssert(p == 0, "no plasma from nil / non-positive fusion")
		return
	}
	units := new(big.Int).Quo(a, big.NewInt(100000000))
	if units.Cmp(big.NewInt(5000)) > 0 {
		units = big.NewInt(5000)
	}
	ref := new(big.Int).Mul(units, big.NewInt(2100))
	verifReach("positive", true)
	verifReach("huge", a.Cmp(new(big.Int).Lsh(big.NewInt(1), 64)) > 0)
	verifAssert(new(big.Int).SetUint64(p).Cmp(ref) == 0, "FussedAmountToPlasma = min(a/1e8,5000)*2100")
	verifAssert(p <= constants.MaxFusionPlasmaForAccount, "fusion plasma never exceeds the account cap")
}

// ---- minimal models of the stores read by AvailablePlasma / enoughPlasma

type c12Account struct {
	store.Account
	addr        types.Address
	chainPlasma *big.Int
	added       uint64
	addCalls    int
}

func (a *c12Account) Address() *types.Address           { return &a.addr }
func (a *c12Account) GetChainPlasma() (*big.Int, error) { return new(big.Int).Set(a.chainPlasma), nil }
func (a *c12Account) AddChainPlasma(p uint64) error {
	a.addCalls++
	a.added += p
	a.chainPlasma = new(big.Int).Add(a.chainPlasma, new(big.Int).SetUint64(p))
	return nil
}

type c12Momentum struct {
	store.Momentum
	confirmed *c12Account
	fused     *big.Int
}

func (m *c12Momentum) GetAccountStore(address types.Address) store.Account { return m.confirmed }
func (m *c12Momentum) GetStakeBeneficialAmount(addr types.Address) (*big.Int, error) {
	return m.fused, nil
}

type c12Context struct {
	vm_context.AccountVmContext
	acc *c12Account
	mom *c12Momentum
}

func (c *c12Context) MomentumStore() store.Momentum           { return c.mom }
func (c *c12Context) Address() *types.Address                 { return c.acc.Address() }
func (c *c12Context) GetChainPlasma() (*big.Int, error)       { return c.acc.GetChainPlasma() }
func (c *c12Context) AddChainPlasma(p uint64) error           { return c.acc.AddChainPlasma(p) }
func (c *c12Context) IsAcceleratorSporkEnforced() bool        { return false }
func (c *c12Context) IsHtlcSporkEnforced() bool               { return false }
func (c *c12Context) IsBridgeAndLiquiditySporkEnforced() bool { return false }

func c12Env() (*c12Context, *big.Int, *big.Int, *big.Int) {
	var addr types.Address
	copy(addr[:], verifNondetBytes("address", 20))
	committed := verifNondetBig("committed chain plasma")
	uncommitted := verifNondetBig("uncommitted chain plasma")
	fused := verifNondetBig("fused qsr")
	verifAssume(committed.Sign() >= 0 && uncommitted.Cmp(committed) >= 0, "chain plasma is cumulative: 0 <= confirmed total <= total incl. unconfirmed blocks")
	verifAssume(fused.Sign() >= 0, "fused amount is a sum of non-negative fusions (C10)")
	conf := &c12Account{addr: addr, chainPlasma: committed}
	acc := &c12Account{addr: addr, chainPlasma: uncommitted}
	return &c12Context{acc: acc, mom: &c12Momentum{confirmed: conf, fused: fused}}, committed, uncommitted, fused
}

func c12RefFusedPlasma(fused *big.Int) *big.Int {
	units := new(big.Int).Quo(fused, big.NewInt(100000000))
	if units.Cmp(big.NewInt(5000)) > 0 {
		units = big.NewInt(5000)
	}
	return new(big.Int).Mul(units, big.NewInt(2100))
}

// VerifC12AvailablePlasma: available = plasma(fused) − plasma used by unconfirmed blocks, error when negative.
func VerifC12AvailablePlasma() {
	ctx, committed, uncommitted, fused := c12Env()
	got, err := AvailablePlasma(ctx.mom, ctx)
	ref := new(big.Int).Sub(c12RefFusedPlasma(fused), new(big.Int).Sub(uncommitted, committed))
	if err != nil {
		verifReach("negative", true)
		verifAssert(ref.Sign() < 0, "AvailablePlasma errors only when unconfirmed blocks used more than the fusion provides")
		return
	}
	verifReach("ok", true)
	verifAssert(new(big.Int).SetUint64(got).Cmp(ref) == 0, "AvailablePlasma = plasma(fused) - used by unconfirmed")
}

// VerifC12EnoughPlasma: acceptance of a plain user block (no embedded destination) implies the plasma accounting of the property.
func VerifC12EnoughPlasma() {
	ctx, committed, uncommitted, fused := c12Env()
	block := &nom.AccountBlock{}
	block.Address = ctx.acc.addr
	verifAssume(!types.IsEmbeddedAddress(block.Address), "user account")
	block.FusedPlasma = verifNondetU64("FusedPlasma")
	block.Difficulty = verifNondetU64("Difficulty")
	block.TotalPlasma = verifNondetU64("TotalPlasma (claimed)")
	block.BasePlasma = verifNondetU64("BasePlasma (claimed)")
	isReceive := verifNondetBool("is receive")
	if isReceive {
		block.BlockType = nom.BlockTypeUserReceive
	} else {
		block.BlockType = nom.BlockTypeUserSend
		copy(block.ToAddress[:], verifNondetBytes("to", 20))
		verifAssume(!types.IsEmbeddedAddress(block.ToAddress), "destination is a user account (embedded destinations: C09/C17 harnesses)")
		n := verifNondetLen("len(data)", 0, 3)
		switch n {
		case 1:
			block.Data = make([]byte, 1)
		case 2:
			block.Data = make([]byte, constants.MaxDataLength)
		case 3:
			block.Data = make([]byte, 1000)
		}
	}
	// a panic raised through common.DealWithErr inside the VM is turned into a rejection by
	// Supervisor.applyBlock's recover (containment itself is C03's obligation)
	err := c12Contained(func() error { return enoughPlasma(ctx, block) })

	avail := new(big.Int).Sub(c12RefFusedPlasma(fused), new(big.Int).Sub(uncommitted, committed))
	pow := new(big.Int).Quo(new(big.Int).SetUint64(block.Difficulty), big.NewInt(1500))
	if pow.Cmp(big.NewInt(94500)) > 0 {
		pow = big.NewInt(94500)
	}
	total := new(big.Int).Add(pow, new(big.Int).SetUint64(block.FusedPlasma))
	base := big.NewInt(21000)
	if !isReceive {
		base = big.NewInt(int64(21000 + 68*len(block.Data)))
	}
	if err == nil {
		verifReach("accepted", true)
		verifAssert(new(big.Int).SetUint64(block.FusedPlasma).Cmp(avail) <= 0, "accepted => fused plasma <= available")
		verifAssert(total.Cmp(big.NewInt(10500000)) <= 0, "accepted => total plasma <= per-block cap")
		verifAssert(total.Cmp(base) >= 0, "accepted => total plasma >= base cost")
		verifAssert(new(big.Int).SetUint64(block.TotalPlasma).Cmp(total) == 0, "TotalPlasma field is recomputed = fused + PoW plasma")
		verifAssert(new(big.Int).SetUint64(block.BasePlasma).Cmp(base) == 0, "BasePlasma field is recomputed")
		verifAssert(ctx.acc.addCalls == 1 && ctx.acc.added == block.FusedPlasma, "chain plasma grows by exactly FusedPlasma")
	} else {
		verifReach("rejected", true)
		verifAssert(ctx.acc.addCalls == 0, "rejected => chain plasma untouched")
		ok := new(big.Int).SetUint64(block.FusedPlasma).Cmp(avail) <= 0 && total.Cmp(big.NewInt(10500000)) <= 0 && total.Cmp(base) >= 0
		verifAssert(!ok, "a block that pays its cost is not rejected for plasma")
	}
}

func c12Contained(f func() error) (err error) {
	defer func() {
		if r := recover(); r != nil {
			err = constants.ErrVmRunPanic
		}
	}()
	return f()
}
