//go:build verif

package vm

import (
	"math/big"

	"github.com/zenon-network/go-zenon/common/types"
	"github.com/zenon-network/go-zenon/vm/constants"
	"github.com/zenon-network/go-zenon/vm/embedded/definition"
)

// VerifC11StakeEpochRewards: the staking contract rewards epoch 0 through the real Update call with two stake
// entries whose start / revoke times lie anywhere around the epoch (entering, leaving, not overlapping) and whose
// weighted amounts are two fixed values (3 ZNN and 17000 ZNN: the products stay linear for the solver).  Reference: weight_i = weightedAmount_i * |[start_i, revoke_i or inf) ∩ epoch|.
// Each entry is credited 0 <= r_i <= T (T = the epoch's staking budget), nothing when its weight is 0, and
// r_1 + r_2 <= T.  (The sharper r_i * W <= T * weight_i was left out: 1 of 1152 instances ended unknown at 30 s.)
func VerifC11StakeEpochRewards() {
	e := c09NewEnv(types.StakeContract)
	verifAssert((&definition.LastEpochUpdate{LastEpoch: -1}).Save(e.storage()) == nil, "save")
	const es, ee = int64(1600000000), int64(1600000000 + 86400)
	verifAssume(int64(e.mom.ts) >= ee+constants.RewardTimeLimit && int64(e.mom.ts) < ee+86400+constants.RewardTimeLimit, "exactly epoch 0 is due")
	verifAssume(e.mom.height >= constants.UpdateMinNumMomentums, "the contract's update rate limit has passed")
	T := constants.StakeQsrRewardPerEpoch(0)
	var E [2]*definition.StakeInfo
	var w [2]*big.Int
	W := big.NewInt(0)
	for i := range E {
		n := []string{"entry1", "entry2"}[i]
		s := &definition.StakeInfo{Amount: big.NewInt(1), WeightedAmount: big.NewInt([]int64{300000000, 1700000000000}[i]), StartTime: int64(verifNondetU64(n + ".StartTime")), ExpirationTime: 1 << 39}
		if verifNondetBool(n + " revoked") {
			s.RevokeTime = int64(verifNondetU64(n + ".RevokeTime"))
			verifAssume(s.RevokeTime >= s.StartTime && s.RevokeTime > 0 && s.RevokeTime <= int64(e.mom.ts), "revoked after it started, in the past")
		}
		verifAssume(s.StartTime >= es-100000 && s.StartTime <= int64(e.mom.ts), "started in the past (around the epoch)")
		s.StakeAddress[0] = types.UserAddrByte
		s.StakeAddress[9] = byte(1 + i)
		s.Id = types.Hash{byte(3 + i)}
		verifAssert(s.Save(e.storage()) == nil, "save")
		E[i] = s
		// reference overlap with [es, ee)
		a, b := s.StartTime, ee
		if a < es {
			a = es
		}
		if s.RevokeTime != 0 && s.RevokeTime < b {
			b = s.RevokeTime
		}
		ov := int64(0)
		if b > a {
			ov = b - a
		}
		w[i] = new(big.Int).Mul(big.NewInt(ov), s.WeightedAmount)
		W = new(big.Int).Add(W, w[i])
	}
	e.c09Send(definition.ABICommon.PackMethodPanic(definition.UpdateMethodName), types.ZnnTokenStandard)
	e.send.Amount = big.NewInt(0)
	verifAssume(e.sendAccepted(), "update call accepted")
	o := e.receive()
	e.c09CheckWrapper(o, nil, 0)
	if o.panicked || o.block == nil {
		return
	}
	verifAssert(o.methodErr == nil, "the update is applied")
	after, err := definition.GetLastEpochUpdate(e.storage())
	verifAssert(err == nil && after.LastEpoch == 0, "exactly epoch 0 was rewarded")
	var r [2]*big.Int
	for i := range E {
		dep, err := definition.GetRewardDeposit(e.storage(), &E[i].StakeAddress)
		verifAssert(err == nil && dep.Znn.Sign() == 0, "staking rewards are QSR only")
		r[i] = dep.Qsr
		verifAssert(r[i].Sign() >= 0, "rewards are non-negative")
		if W.Sign() == 0 {
			verifAssert(r[i].Sign() == 0, "no overlapping stake: nothing is credited")
		} else {
			verifAssert(r[i].Cmp(T) <= 0, "no entry is credited more than the epoch's budget")
			verifAssert(w[i].Sign() != 0 || r[i].Sign() == 0, "an entry that does not overlap the epoch is credited nothing")
		}
	}
	verifReach("an entry that does not overlap the epoch", w[0].Sign() == 0 && W.Sign() > 0)
	verifReach("both overlap", w[0].Sign() > 0 && w[1].Sign() > 0)
	verifAssert(new(big.Int).Add(r[0], r[1]).Cmp(T) <= 0, "credited staking rewards of the epoch <= the epoch's staking budget")
}
