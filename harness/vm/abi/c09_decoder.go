//go:build verif

package abi

// VerifC09LengthPrefix: the byte-level offset/length decoding of dynamic ABI arguments, on arbitrary (hostile)
// data: never panics (no slice out of range, no integer wrap), and on success the returned window lies inside the data.
func VerifC09LengthPrefix() {
	lens := []int{32, 64, 96, 128, 160}
	L := lens[verifNondetLen("len(output) (index into {32,64,96,128,160})", 0, verifParam("lens", 3))]
	output := verifNondetBytes("output", L)
	index := verifNondetInt("index")
	verifAssume(index >= 0 && index <= L-WordSize, "caller (toGoType) checked index+32 <= len(output); indices are small multiples of 32")
	start, length, err := lengthPrefixPointsTo(index, output)
	if err != nil {
		verifReach("refused", true)
		return
	}
	verifReach("accepted", true)
	verifReach("accepted with a non-empty payload", length > 0)
	verifAssert(start >= WordSize && length >= 0, "start past the length word, length non-negative")
	verifAssert(start <= L && length <= L && start+length <= L, "the payload window lies inside the data (output[start:start+length] cannot panic)")
}

// VerifC09ReadBool: a bool word is accepted only in its two canonical forms.
func VerifC09ReadBool() {
	word := verifNondetBytes("word", 32)
	b, err := readBool(word)
	canonical := true
	for _, x := range word[:31] {
		if x != 0 {
			canonical = false
			break
		}
	}
	canonical = canonical && word[31] <= 1
	verifReach("ok", err == nil)
	verifReach("bad", err != nil)
	verifAssert((err == nil) == canonical, "exactly 0 and 1 are accepted")
	if err == nil {
		verifAssert(b == (word[31] == 1), "value")
	}
}
