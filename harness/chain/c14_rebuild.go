//go:build verif

package chain

import (
	"github.com/syndtr/goleveldb/leveldb"
	"github.com/syndtr/goleveldb/leveldb/memdb"

	"github.com/zenon-network/go-zenon/chain/account"
	"github.com/zenon-network/go-zenon/chain/nom"
	"github.com/zenon-network/go-zenon/common"
	"github.com/zenon-network/go-zenon/common/db"
	"github.com/zenon-network/go-zenon/common/types"
)

// ---- cuts (engine overrides): protobuf serialisation of account blocks = opaque token round trip
var c14Registry []*nom.AccountBlock

func verifModelABSerialize(b *nom.AccountBlock) ([]byte, error) {
	c14Registry = append(c14Registry, b)
	return []byte{0xAC, byte(len(c14Registry) - 1)}, nil
}
func verifModelABDeserialize(data []byte) (*nom.AccountBlock, error) {
	if len(data) != 2 || data[0] != 0xAC || int(data[1]) >= len(c14Registry) {
		return nil, leveldb.ErrNotFound
	}
	c := *c14Registry[data[1]]
	return &c, nil
}
func verifModelHHSerialize3(b *types.HashHeight) []byte {
	return common.JoinBytes(b.Hash.Bytes(), common.Uint64ToBytes(b.Height))
}
func verifModelHHDeserialize3(data []byte) (*types.HashHeight, error) {
	if len(data) != 40 {
		return nil, leveldb.ErrNotFound
	}
	hh := &types.HashHeight{Height: common.BytesToUint64(data[32:])}
	copy(hh.Hash[:], data[:32])
	return hh, nil
}
func verifModelRandHeight3(p *memdb.DB) int { return 1 }

type verifRandSource3 interface {
	Int63() int64
	Seed(seed int64)
}

func verifModelNewSourceNil3(seed int64) verifRandSource3 { return nil }

type c14Stable struct{ dbs map[types.Address]db.DB }

func (s *c14Stable) GetStableAccountDB(address types.Address) db.DB {
	if d, ok := s.dbs[address]; ok {
		return d.Snapshot()
	}
	return db.NewMemDB()
}

func c14Hash(tag byte, height uint64) types.Hash {
	var h types.Hash
	h[0] = tag
	h[31] = byte(height)
	return h
}

func c14Mk(addr types.Address, tag byte, height uint64, prev types.Hash) *nom.AccountBlock {
	return &nom.AccountBlock{Address: addr, Height: height, Hash: c14Hash(tag, height), PreviousHash: prev, BlockType: nom.BlockTypeUserSend,
		TotalPlasma: 21000, BasePlasma: 21000}
}

// c14StableDB: an account db whose confirmed chain is the given blocks (in order)
func c14StableDB(addr types.Address, chain []*nom.AccountBlock) db.DB {
	d := db.NewMemDB()
	setter := account.NewAccountStore(addr, d).(interface {
		SetFrontier(*nom.AccountBlock) error
	})
	for _, b := range chain {
		verifAssert(setter.SetFrontier(b) == nil, "set confirmed block")
	}
	return d
}

// VerifC14RebuildAfterMomentum: after a momentum is inserted the pool of an account holds exactly the previously
// pooled blocks that were not confirmed by it and still link to the new confirmed frontier; if the momentum
// confirmed a competitor, the orphaned blocks are dropped (never kept unlinked) and the pool frontier is the
// confirmed block.
func VerifC14RebuildAfterMomentum() {
	c14Registry = nil
	var addr types.Address
	addr[0] = types.UserAddrByte
	addr[19] = 9
	S := c14Mk(addr, 1, 1, types.ZeroHash)
	st := &c14Stable{dbs: map[types.Address]db.DB{addr: c14StableDB(addr, []*nom.AccountBlock{S})}}
	ap := newAccountPool(st)
	lock := c16LockerForPool{}

	pooledN := verifNondetLen("pooled blocks", 1, 2)
	B2 := c14Mk(addr, 2, 2, S.Hash)
	B3 := c14Mk(addr, 2, 3, B2.Hash)
	pooled := []*nom.AccountBlock{B2, B3}[:pooledN]
	for _, b := range pooled {
		verifAssert(ap.AddAccountBlockTransaction(lock, &nom.AccountBlockTransaction{Block: b, Changes: db.NewPatch()}) == nil, "pool insert")
	}
	verifAssert(ap.getFrontierAccountStore(addr).Identifier() == pooled[pooledN-1].Identifier(), "pool frontier is the last pooled block")

	// the momentum confirms: nothing of this account, a prefix of the pooled chain, or a competitor of B2
	kind := verifNondetLen("momentum confirms (0 nothing, 1 B2, 2 B2+B3, 3 a competitor of B2)", 0, 3)
	X2 := c14Mk(addr, 7, 2, S.Hash)
	var confirmed []*nom.AccountBlock
	switch kind {
	case 1:
		confirmed = []*nom.AccountBlock{B2}
	case 2:
		verifAssume(pooledN == 2, "B3 pooled")
		confirmed = []*nom.AccountBlock{B2, B3}
	case 3:
		confirmed = []*nom.AccountBlock{X2}
	}
	st.dbs[addr] = c14StableDB(addr, append([]*nom.AccountBlock{S}, confirmed...))
	ap.InsertMomentum(&nom.DetailedMomentum{Momentum: &nom.Momentum{Height: 2}, AccountBlocks: confirmed})

	// reference
	var want []*nom.AccountBlock
	stableTop := S
	switch kind {
	case 0:
		want = pooled
	case 1:
		want = pooled[1:]
		stableTop = B2
	case 2:
		want = nil
		stableTop = B3
	case 3:
		want = nil // B2 (and B3) are orphaned by the confirmed competitor
		stableTop = X2
	}
	got := ap.GetUncommittedAccountBlocksByAddress(addr)
	verifReach("competitor confirmed", kind == 3)
	verifReach("prefix confirmed, rest kept", kind == 1 && pooledN == 2)
	verifAssert(len(got) == len(want), "pool holds exactly the previously pooled blocks that were not confirmed and still link")
	for i := range got {
		if i < len(want) {
			verifAssert(got[i].Hash == want[i].Hash && got[i].Height == want[i].Height, "same blocks in chain order")
		}
	}
	front := ap.getFrontierAccountStore(addr).Identifier()
	top := stableTop.Identifier()
	if len(want) > 0 {
		top = want[len(want)-1].Identifier()
	}
	verifAssert(front == top, "pool frontier = last kept block, or the confirmed frontier when nothing is kept")
	// the chain held by the pool links down to the confirmed frontier
	prev := stableTop.Identifier()
	for _, b := range got {
		verifAssert(b.Previous() == prev, "pooled blocks form a single chain extending the last confirmed block")
		prev = b.Identifier()
	}
	// a block extending the (new) frontier can be inserted afterwards
	next := c14Mk(addr, 3, front.Height+1, front.Hash)
	verifAssert(ap.AddAccountBlockTransaction(lock, &nom.AccountBlockTransaction{Block: next, Changes: db.NewPatch()}) == nil, "the next block of the account is accepted on top")
}

type c16LockerForPool struct{}

func (c16LockerForPool) Lock()   {}
func (c16LockerForPool) Unlock() {}

// VerifC14InsertionDecision: decision table of the pool insertion for one account with confirmed block S (height 1)
// and pooled blocks B2[,B3]: a candidate at height 1..4 with a right or wrong predecessor, equal to or competing with
// the block pooled at its height, with arbitrary plasma fields, forced or not.  Afterwards the pool is always one chain
// extending S; a confirmed block is never displaced; a competitor replaces pooled blocks only if it wins the priority
// rule (or is forced); everything else is refused without change.
func VerifC14InsertionDecision() {
	c14Registry = nil
	var addr types.Address
	addr[0] = types.UserAddrByte
	addr[19] = 9
	S := c14Mk(addr, 1, 1, types.ZeroHash)
	st := &c14Stable{dbs: map[types.Address]db.DB{addr: c14StableDB(addr, []*nom.AccountBlock{S})}}
	ap := newAccountPool(st)
	lock := c16LockerForPool{}
	pooledN := verifNondetLen("pooled blocks", 0, 2)
	B2 := c14Mk(addr, 2, 2, S.Hash)
	B3 := c14Mk(addr, 2, 3, B2.Hash)
	chain := []*nom.AccountBlock{S, B2, B3}[:1+pooledN]
	for _, b := range chain[1:] {
		verifAssert(ap.AddAccountBlockTransaction(lock, &nom.AccountBlockTransaction{Block: b, Changes: db.NewPatch()}) == nil, "pool insert")
	}
	frontier := chain[len(chain)-1]

	hc := uint64(verifNondetLen("candidate height", 1, 4))
	C := c14Mk(addr, 5, hc, types.ZeroHash)
	prevRight := verifNondetBool("candidate names the block the pool has at height-1")
	if hc >= 2 && int(hc-1) <= len(chain) && prevRight {
		C.PreviousHash = chain[hc-2].Hash
	} else if hc >= 2 {
		C.PreviousHash = c14Hash(6, hc-1)
		prevRight = false
	}
	same := verifNondetBool("candidate is the block already pooled/confirmed at that height")
	if same && int(hc) <= len(chain) {
		C = chain[hc-1]
	} else {
		same = false
		C.TotalPlasma = verifNondetU64("candidate.TotalPlasma")
		C.BasePlasma = verifNondetU64("candidate.BasePlasma")
		verifAssume(C.TotalPlasma <= 10500000 && C.BasePlasma >= 21000 && C.BasePlasma <= 21000+68*16384, "plasma fields in the ranges the VM establishes")
	}
	force := verifNondetBool("forced insertion (sync)")
	var err error
	tx := &nom.AccountBlockTransaction{Block: C, Changes: db.NewPatch()}
	if force {
		err = ap.ForceAddAccountBlockTransaction(lock, tx)
	} else {
		err = ap.AddAccountBlockTransaction(lock, tx)
	}
	got := ap.GetUncommittedAccountBlocksByAddress(addr)
	// invariants that hold whatever happened
	prev := S.Identifier()
	for _, b := range got {
		verifAssert(b.Previous() == prev, "the pool is a single chain extending the last confirmed block")
		prev = b.Identifier()
	}
	stableNow := account.NewAccountStore(addr, st.GetStableAccountDB(addr))
	verifAssert(stableNow.Identifier() == S.Identifier(), "a confirmed block is never displaced by a pool operation")

	unchanged := len(got) == pooledN
	for i := range got {
		if i < pooledN && got[i].Hash != chain[i+1].Hash {
			unchanged = false
		}
	}
	switch {
	case !same && hc == frontier.Height+1 && prevRight:
		verifReach("fast-forward", true)
		verifAssert(err == nil && len(got) == pooledN+1 && got[pooledN].Hash == C.Hash, "a block extending the pool frontier is appended")
	case same:
		verifReach("already present", true)
		if hc == 1 {
			verifAssert(unchanged, "re-delivering the confirmed block changes nothing")
		} else {
			verifAssert(err == nil && unchanged, "re-inserting a pooled block changes nothing")
		}
	case hc <= 1:
		verifReach("older than confirmed", true)
		verifAssert(err != nil && unchanged, "a candidate at or below the confirmed height is refused")
	case !prevRight || hc > frontier.Height+1:
		verifReach("does not link", true)
		verifAssert(err != nil && unchanged, "a candidate that does not link into the pool chain is refused")
	default:
		// a competitor of the block pooled at height hc
		old := chain[hc-1]
		wins := higherPriority(C, old) == nil
		verifReach("competitor wins", wins && !force)
		verifReach("competitor loses", !wins && !force)
		if wins || force {
			verifAssert(err == nil && uint64(len(got)) == hc-1 && got[hc-2].Hash == C.Hash, "the winner (or a forced block) replaces the pooled block and what was built on it")
		} else {
			verifAssert(err != nil && unchanged, "a losing competitor is refused")
		}
	}
}
