//go:build verif

package genesis

import (
	"math/big"

	"github.com/zenon-network/go-zenon/common/types"
	"github.com/zenon-network/go-zenon/vm/embedded/definition"
)

func c20Amount(tag string) *big.Int {
	a := verifNondetBig(tag)
	verifAssume(a.Sign() >= 0, "config amounts are non-negative")
	return a
}

// c20Built: the balance the genesis builder (wrap) really gives an address: balance blocks are applied in list
// order with SetBalance, so a later block for the same address and token overwrites an earlier one.
func c20Built(g *GenesisConfig, addr types.Address, zts types.ZenonTokenStandard) *big.Int {
	res := big.NewInt(0)
	for _, b := range g.GenesisBlocks.Blocks {
		if b.Address != addr {
			continue
		}
		if v, ok := b.BalanceList[zts]; ok {
			res = v
		}
	}
	return res
}

// VerifC20ValidatorsImplyConsistency: a configuration accepted by CheckGenesis yields a consistent initial state:
// for every declared token the built balances add up to the declared total supply, and the plasma / pillar
// contracts hold exactly the fused / staked amounts they owe.
func VerifC20ValidatorsImplyConsistency() {
	var user types.Address
	user[0] = types.UserAddrByte
	user[19] = 7
	universe := []types.Address{types.PlasmaContract, types.PillarContract, user}
	spork := user
	g := &GenesisConfig{ChainIdentifier: 1, SporkAddress: &spork, SwapConfig: &SwapContractConfig{}}
	g.TokenConfig = &TokenContractConfig{Tokens: []*definition.TokenInfo{
		{TokenStandard: types.ZnnTokenStandard, TotalSupply: c20Amount("znn.TotalSupply"), MaxSupply: c20Amount("znn.MaxSupply")},
		{TokenStandard: types.QsrTokenStandard, TotalSupply: c20Amount("qsr.TotalSupply"), MaxSupply: c20Amount("qsr.MaxSupply")},
	}}
	g.PillarConfig = &PillarContractConfig{}
	if verifNondetBool("one pillar") {
		g.PillarConfig.Pillars = []*definition.PillarInfo{{Name: "p", Amount: c20Amount("pillar.Amount")}}
	}
	g.PlasmaConfig = &PlasmaContractConfig{}
	if verifNondetBool("one fusion") {
		g.PlasmaConfig.Fusions = []*definition.FusionInfo{{Owner: user, Beneficiary: user, Amount: c20Amount("fusion.Amount")}}
	}
	g.GenesisBlocks = &GenesisBlocksConfig{}
	n := verifNondetLen("balance blocks", 0, verifParam("blocks", 3))
	for i := 0; i < n; i++ {
		b := &GenesisBlockConfig{Address: universe[verifNondetLen("block.Address (index)", 0, 2)], BalanceList: map[types.ZenonTokenStandard]*big.Int{}}
		if verifNondetBool("block has znn") {
			b.BalanceList[types.ZnnTokenStandard] = c20Amount("block.znn")
		}
		if verifNondetBool("block has qsr") {
			b.BalanceList[types.QsrTokenStandard] = c20Amount("block.qsr")
		}
		g.GenesisBlocks.Blocks = append(g.GenesisBlocks.Blocks, b)
	}
	err := CheckGenesis(g)
	if err != nil {
		verifReach("rejected", true)
		return
	}
	verifReach("accepted", true)
	dup := false
	for i := range g.GenesisBlocks.Blocks {
		for j := 0; j < i; j++ {
			if g.GenesisBlocks.Blocks[i].Address == g.GenesisBlocks.Blocks[j].Address {
				dup = true
			}
		}
	}
	has := func(a types.Address) bool {
		for _, b := range g.GenesisBlocks.Blocks {
			if b.Address == a {
				return true
			}
		}
		return false
	}
	for _, tok := range g.TokenConfig.Tokens {
		sum := big.NewInt(0)
		for _, a := range universe {
			sum = new(big.Int).Add(sum, c20Built(g, a, tok.TokenStandard))
		}
		verifAssertKnown(sum.Cmp(tok.TotalSupply) == 0, "accepted => built balances of a token add up to its declared total supply", dup, "C20-F12b")
	}
	fused := big.NewInt(0)
	for _, f := range g.PlasmaConfig.Fusions {
		fused = new(big.Int).Add(fused, f.Amount)
	}
	verifAssertKnown(c20Built(g, types.PlasmaContract, types.QsrTokenStandard).Cmp(fused) == 0, "accepted => the plasma contract holds exactly the fused QSR it owes",
		dup || !has(types.PlasmaContract), c20Tag(dup))
	staked := big.NewInt(0)
	for _, p := range g.PillarConfig.Pillars {
		staked = new(big.Int).Add(staked, p.Amount)
	}
	verifAssertKnown(c20Built(g, types.PillarContract, types.ZnnTokenStandard).Cmp(staked) == 0, "accepted => the pillar contract holds exactly the pillar collateral it owes",
		dup || !has(types.PillarContract), c20Tag(dup))
}

func c20Tag(dup bool) string {
	if dup {
		return "C20-F12b"
	}
	return "C20-F12a"
}
