//go:build verif

package genesis

import (
	"math/big"

	"github.com/zenon-network/go-zenon/chain/account"
	"github.com/zenon-network/go-zenon/common/db"
	"github.com/zenon-network/go-zenon/common/types"
	"github.com/zenon-network/go-zenon/vm/constants"
	"github.com/zenon-network/go-zenon/vm/embedded/definition"
)

func c20Addr(b byte) types.Address {
	var a types.Address
	a[0], a[19] = types.UserAddrByte, b
	return a
}

// VerifC20PlasmaBuilder: the real genesis builder of the plasma contract (genesisPlasmaContractConfig + wrap) on a
// configuration with two fusion entries (owners from 2 addresses, ids from 2 hashes, beneficiaries from 2 addresses,
// arbitrary amounts) and a balance block of the contract.  The built state stores every entry with its own amount,
// FusedAmount(beneficiary) is the sum of that beneficiary's entries, the configuration is not modified by building,
// building twice gives the same block, and the two entries - which carry no order - can be swapped without changing
// the block.  A configuration CheckGenesis accepts yields stored entries that add up to the contract's QSR.
func VerifC20PlasmaBuilder() {
	owners := []types.Address{c20Addr(1), c20Addr(2)}
	bens := []types.Address{c20Addr(3), c20Addr(4)}
	ids := []types.Hash{{}, {1}}
	mk := func(tag string) *definition.FusionInfo {
		a := new(big.Int).SetBytes(verifNondetBytes(tag+".Amount", 8))
		return &definition.FusionInfo{Owner: owners[verifNondetLen(tag+".Owner (index)", 0, 1)], Id: ids[verifNondetLen(tag+".Id (index)", 0, 1)],
			Beneficiary: bens[verifNondetLen(tag+".Beneficiary (index)", 0, 1)], Amount: a, ExpirationHeight: 1}
	}
	f1, f2 := mk("f1"), mk("f2")
	a1, a2 := new(big.Int).Set(f1.Amount), new(big.Int).Set(f2.Amount)
	bal := new(big.Int).SetBytes(verifNondetBytes("plasma contract qsr", 9))
	cfgOf := func(x, y *definition.FusionInfo) *GenesisConfig {
		spork := c20Addr(9)
		return &GenesisConfig{ChainIdentifier: 1, SporkAddress: &spork, SwapConfig: &SwapContractConfig{}, PillarConfig: &PillarContractConfig{},
			TokenConfig: &TokenContractConfig{Tokens: []*definition.TokenInfo{
				{TokenStandard: types.ZnnTokenStandard, TotalSupply: big.NewInt(0), MaxSupply: big.NewInt(0)},
				{TokenStandard: types.QsrTokenStandard, TotalSupply: new(big.Int).Set(bal), MaxSupply: new(big.Int).Set(bal)}}},
			PlasmaConfig:  &PlasmaContractConfig{Fusions: []*definition.FusionInfo{x, y}},
			GenesisBlocks: &GenesisBlocksConfig{Blocks: []*GenesisBlockConfig{{Address: types.PlasmaContract, BalanceList: map[types.ZenonTokenStandard]*big.Int{types.QsrTokenStandard: bal}}}}}
	}
	g := cfgOf(f1, f2)
	tx := genesisPlasmaContractConfig(g)
	verifAssert(f1.Amount.Cmp(a1) == 0 && f2.Amount.Cmp(a2) == 0, "building does not modify the configuration")
	d := db.NewMemDB()
	verifAssert(db.ApplyPatch(d, tx.Changes) == nil, "apply the built changes")
	as := account.NewAccountStore(types.PlasmaContract, d)
	sameKey := f1.Owner == f2.Owner && f1.Id == f2.Id
	verifReach("two entries under one (owner, id) key", sameKey)
	verifReach("two entries of one beneficiary under different keys", !sameKey && f1.Beneficiary == f2.Beneficiary)

	// stored entries
	s1, err1 := definition.GetFusionInfo(as.Storage(), f1.Owner, f1.Id)
	s2, err2 := definition.GetFusionInfo(as.Storage(), f2.Owner, f2.Id)
	verifAssert(err1 == nil && err2 == nil, "every configured entry is stored")
	verifAssert(s2.Amount.Cmp(a2) == 0 && s2.Beneficiary == f2.Beneficiary, "an entry is stored with its own amount and beneficiary")
	verifAssertKnown(s1.Amount.Cmp(a1) == 0 && s1.Beneficiary == f1.Beneficiary, "an entry is stored with its own amount and beneficiary (first entry)", sameKey, "C20-F17")
	// per-beneficiary totals
	for _, b := range bens {
		want := big.NewInt(0)
		if f1.Beneficiary == b {
			want.Add(want, a1)
		}
		if f2.Beneficiary == b {
			want.Add(want, a2)
		}
		fa, err := definition.GetFusedAmount(as.Storage(), b)
		verifAssert(err == nil && fa.Amount.Cmp(want) == 0, "FusedAmount(beneficiary) = sum of the beneficiary's configured entries")
	}
	// a pure function of the configuration; entries carry no order
	tx2 := genesisPlasmaContractConfig(g)
	verifAssert(tx2.Block.Hash == tx.Block.Hash && tx2.Block.ChangesHash == tx.Block.ChangesHash, "building twice gives the same block")
	f1b, f2b := *f1, *f2
	f1b.Amount, f2b.Amount = new(big.Int).Set(a1), new(big.Int).Set(a2)
	tx3 := genesisPlasmaContractConfig(cfgOf(&f2b, &f1b))
	verifAssertKnown(tx3.Block.ChangesHash == tx.Block.ChangesHash, "swapping the two fusion entries does not change the built block", sameKey, "C20-F17")

	// accepted by the validators => what is stored adds up to what the contract holds
	if CheckGenesis(g) == nil {
		verifReach("accepted by CheckGenesis", true)
		stored := new(big.Int).Set(s2.Amount)
		if !sameKey {
			stored.Add(stored, s1.Amount)
		}
		q, err := as.GetBalance(types.QsrTokenStandard)
		verifAssert(err == nil && q.Cmp(bal) == 0, "the contract is given its configured balance")
		verifAssertKnown(stored.Cmp(q) == 0, "accepted => the stored fusion entries add up to the contract's QSR", sameKey, "C20-F17")
	}
	_ = constants.FuseMinAmount
}
