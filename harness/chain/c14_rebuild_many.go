//go:build verif

package chain

import (
	"github.com/zenon-network/go-zenon/chain/nom"
	"github.com/zenon-network/go-zenon/common/db"
	"github.com/zenon-network/go-zenon/common/types"
)

// VerifC14RebuildManyAccounts: the pool after a momentum, with several accounts in it (the order in which the pool
// walks its accounts is arbitrary: Go map iteration).  Account A has pooled B2[,B3]; account U has one pooled block
// U2; the embedded account C has a pooled contract batch (descendant send D + receive R, one transaction).  The
// momentum confirms, per account, nothing, the pooled block, or a competitor at the same height.  Afterwards every
// account's pool is what a node that processes the accounts independently holds: the previously pooled blocks that
// were not confirmed and still link, the pool frontier of each account extends that account's confirmed frontier,
// and a contract batch that was not confirmed is still there, whole.
func VerifC14RebuildManyAccounts() {
	c14Registry = nil
	verifMapOrderNondet(true)
	var a, u, c types.Address
	a[0], u[0], c[0] = types.UserAddrByte, types.UserAddrByte, types.ContractAddrByte
	a[19], u[19], c[19] = 9, 10, 11
	SA, SU, SC := c14Mk(a, 1, 1, types.ZeroHash), c14Mk(u, 1, 1, types.ZeroHash), c14Mk(c, 1, 1, types.ZeroHash)
	st := &c14Stable{dbs: map[types.Address]db.DB{a: c14StableDB(a, []*nom.AccountBlock{SA}), u: c14StableDB(u, []*nom.AccountBlock{SU}), c: c14StableDB(c, []*nom.AccountBlock{SC})}}
	ap := newAccountPool(st)
	lock := c16LockerForPool{}
	add := func(b *nom.AccountBlock) {
		verifAssert(ap.AddAccountBlockTransaction(lock, &nom.AccountBlockTransaction{Block: b, Changes: db.NewPatch()}) == nil, "pool insert")
	}
	// pooled
	B2 := c14Mk(a, 2, 2, SA.Hash)
	B3 := c14Mk(a, 2, 3, B2.Hash)
	U2 := c14Mk(u, 2, 2, SU.Hash)
	D := c14Mk(c, 2, 2, SC.Hash)
	D.BlockType = nom.BlockTypeContractSend
	R := c14Mk(c, 2, 3, D.Hash)
	R.BlockType = nom.BlockTypeContractReceive
	R.DescendantBlocks = []*nom.AccountBlock{D}
	withA3 := verifNondetBool("A has B3 pooled on top of B2")
	withBatch := verifNondetBool("C has a pooled contract batch")
	add(B2)
	if withA3 {
		add(B3)
	}
	add(U2)
	if withBatch {
		add(R)
		verifAssert(len(ap.GetUncommittedAccountBlocksByAddress(c)) == 2, "the batch is pooled: descendant and receive")
	}
	// the momentum
	kindA := verifNondetLen("momentum confirms for A (0 nothing, 1 B2, 2 a competitor of B2)", 0, 2)
	kindU := verifNondetLen("momentum confirms for U (0 nothing, 1 U2, 2 a competitor of U2)", 0, 2)
	XA, XU := c14Mk(a, 7, 2, SA.Hash), c14Mk(u, 7, 2, SU.Hash)
	var confirmed []*nom.AccountBlock
	topA, topU := SA, SU
	wantA := []*nom.AccountBlock{B2}
	if withA3 {
		wantA = append(wantA, B3)
	}
	wantU := []*nom.AccountBlock{U2}
	switch kindA {
	case 1:
		confirmed, topA, wantA = append(confirmed, B2), B2, wantA[1:]
		st.dbs[a] = c14StableDB(a, []*nom.AccountBlock{SA, B2})
	case 2:
		confirmed, topA, wantA = append(confirmed, XA), XA, nil
		st.dbs[a] = c14StableDB(a, []*nom.AccountBlock{SA, XA})
	}
	switch kindU {
	case 1:
		confirmed, topU, wantU = append(confirmed, U2), U2, nil
		st.dbs[u] = c14StableDB(u, []*nom.AccountBlock{SU, U2})
	case 2:
		confirmed, topU, wantU = append(confirmed, XU), XU, nil
		st.dbs[u] = c14StableDB(u, []*nom.AccountBlock{SU, XU})
	}
	ap.InsertMomentum(&nom.DetailedMomentum{Momentum: &nom.Momentum{Height: 2}, AccountBlocks: confirmed})

	check := func(name string, addr types.Address, top *nom.AccountBlock, want []*nom.AccountBlock) {
		got := ap.GetUncommittedAccountBlocksByAddress(addr)
		verifAssert(len(got) == len(want), name+": pool holds exactly the previously pooled blocks that were not confirmed and still link")
		prev := top.Identifier()
		for i, b := range got {
			if i < len(want) {
				verifAssert(b.Hash == want[i].Hash && b.Height == want[i].Height, name+": same blocks in chain order")
			}
			prev = b.Identifier()
		}
		verifAssert(ap.getFrontierAccountStore(addr).Identifier() == prev, name+": pool frontier = last kept block, or the confirmed frontier when nothing is kept")
	}
	verifReach("an orphaned block above a confirmed competitor (its re-application fails)", kindA == 2 && withA3)
	verifReach("a leftover contract batch", withBatch)
	check("A", a, topA, wantA)
	check("U", u, topU, wantU)
	if withBatch {
		check("C", c, SC, []*nom.AccountBlock{D, R})
	}
}

// VerifC06PoolAfterRollback: when a momentum is rolled back the unconfirmed pool keeps nothing that depends on it:
// no pooled block of ANY account acknowledges the removed momentum (or a later one) or receives a send that only the
// removed momentum confirmed, and every account's pool frontier is again its confirmed frontier or a block that
// survives on its own.  Accounts: A (its pooled-then-confirmed send is in the removed momentum), U (pooled blocks that
// acknowledge the removed momentum - e.g. the receive of A's send - and, optionally, one that does not).
func VerifC06PoolAfterRollback() {
	c14Registry = nil
	verifMapOrderNondet(true)
	var a, u types.Address
	a[0], u[0] = types.UserAddrByte, types.UserAddrByte
	a[19], u[19] = 9, 10
	SA, SU := c14Mk(a, 1, 1, types.ZeroHash), c14Mk(u, 1, 1, types.ZeroHash)
	st := &c14Stable{dbs: map[types.Address]db.DB{a: c14StableDB(a, []*nom.AccountBlock{SA}), u: c14StableDB(u, []*nom.AccountBlock{SU})}}
	ap := newAccountPool(st)
	lock := c16LockerForPool{}
	add := func(b *nom.AccountBlock) {
		verifAssert(ap.AddAccountBlockTransaction(lock, &nom.AccountBlockTransaction{Block: b, Changes: db.NewPatch()}) == nil, "pool insert")
	}
	M1 := types.HashHeight{Hash: c14Hash(0xF1, 1), Height: 1}
	M2 := types.HashHeight{Hash: c14Hash(0xF2, 2), Height: 2} // the momentum that is rolled back
	// A's send, confirmed by M2
	B2 := c14Mk(a, 2, 2, SA.Hash)
	B2.MomentumAcknowledged = M1
	add(B2)
	st.dbs[a] = c14StableDB(a, []*nom.AccountBlock{SA, B2})
	ap.InsertMomentum(&nom.DetailedMomentum{Momentum: &nom.Momentum{Height: 2, Hash: M2.Hash}, AccountBlocks: []*nom.AccountBlock{B2}})
	// U's pooled blocks on top of M2
	independent := verifNondetBool("U first has a pooled block that does not depend on the removed momentum")
	prev := SU
	if independent {
		U2 := c14Mk(u, 2, 2, SU.Hash)
		U2.MomentumAcknowledged = M1
		add(U2)
		prev = U2
	}
	R := c14Mk(u, 3, prev.Height+1, prev.Hash)
	R.BlockType, R.FromBlockHash, R.MomentumAcknowledged = nom.BlockTypeUserReceive, B2.Hash, M2
	add(R)
	// roll M2 back
	st.dbs[a] = c14StableDB(a, []*nom.AccountBlock{SA})
	ap.DeleteMomentum(&nom.DetailedMomentum{Momentum: &nom.Momentum{Height: 2, Hash: M2.Hash}, AccountBlocks: []*nom.AccountBlock{B2}})
	for _, addr := range []types.Address{a, u} {
		for _, b := range ap.GetUncommittedAccountBlocksByAddress(addr) {
			verifAssert(b.MomentumAcknowledged.Height < M2.Height, "no pooled block acknowledges the removed momentum")
			verifAssert(b.FromBlockHash != B2.Hash || addr == a, "no pooled block receives a send that only the removed momentum confirmed")
		}
	}
	verifReach("rolled back", true)
}
