//go:build verif

package momentum

import (
	"github.com/zenon-network/go-zenon/chain/nom"
	"github.com/zenon-network/go-zenon/common/types"
	"github.com/zenon-network/go-zenon/vm/embedded/definition"
)

// engine overrides: the spork records and the frontier of the store under test are arbitrary
var c17Sporks []*definition.Spork
var c17Height uint64

func verifModelGetAllDefinedSporks(ms *momentumStore) ([]*definition.Spork, error) {
	return c17Sporks, nil
}
func verifModelGetFrontierMomentum(ms *momentumStore) (*nom.Momentum, error) {
	return &nom.Momentum{Height: c17Height}, nil
}

func c17Spork(tag string, ids []types.Hash) *definition.Spork {
	s := &definition.Spork{}
	s.Id = ids[verifNondetLen(tag+".Id (index into the id universe)", 0, len(ids)-1)]
	s.Activated = verifNondetBool(tag + ".Activated")
	s.EnforcementHeight = verifNondetU64(tag + ".EnforcementHeight")
	return s
}

// VerifC17ActivityPredicate: a spork-gated rule is active for a store exactly when a record with that id is
// activated and its enforcement height is at or below the store's frontier height (never at genesis);
// for fixed records activity is monotone in the height.
func VerifC17ActivityPredicate() {
	var other types.Hash
	other[0] = 0x77
	ids := []types.Hash{types.AcceleratorSpork.SporkId, types.HtlcSpork.SporkId, other}
	n := verifNondetLen("spork records", 0, verifParam("sporks", 2))
	c17Sporks = nil
	for i := 0; i < n; i++ {
		c17Sporks = append(c17Sporks, c17Spork("spork", ids))
	}
	ms := &momentumStore{}
	c17Height = verifNondetU64("frontier height")
	verifAssume(c17Height >= 1 && c17Height < 1<<63, "heights start at 1")
	active, err := ms.IsSporkActive(types.AcceleratorSpork)
	verifAssert(err == nil, "no error")
	want := false
	for _, s := range c17Sporks {
		if s.Id == types.AcceleratorSpork.SporkId && s.Activated && s.EnforcementHeight <= c17Height && c17Height != 1 {
			want = true
		}
	}
	verifReach("active", active)
	verifReach("inactive although a record exists", !active && n > 0)
	verifAssert(active == want, "active <=> activated record with that id and enforcement height <= height (height != 1)")
	// monotone: one height later it is still active
	if active {
		c17Height++
		again, _ := ms.IsSporkActive(types.AcceleratorSpork)
		verifAssert(again, "activity is monotone in the height")
	}
}
