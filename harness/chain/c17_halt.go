//go:build verif

package chain

import (
	"github.com/zenon-network/go-zenon/chain/nom"
	"github.com/zenon-network/go-zenon/chain/store"
	"github.com/zenon-network/go-zenon/common/types"
	"github.com/zenon-network/go-zenon/vm/embedded/definition"
)

type c17Store struct {
	store.Momentum
	height uint64
	sporks []*definition.Spork
}

func (s *c17Store) GetFrontierMomentum() (*nom.Momentum, error) {
	return &nom.Momentum{Height: s.height}, nil
}
func (s *c17Store) GetAllDefinedSporks() ([]*definition.Spork, error) { return s.sporks, nil }

// VerifC17HaltOnUnknownSpork: the node reports "unimplemented" (and stops) exactly when some activated spork whose
// enforcement height has been reached is not among the sporks this binary implements.
func VerifC17HaltOnUnknownSpork() {
	var unknown types.Hash
	unknown[0] = 0x77
	ids := []types.Hash{types.AcceleratorSpork.SporkId, types.HtlcSpork.SporkId, types.BridgeAndLiquiditySpork.SporkId, unknown}
	st := &c17Store{height: verifNondetU64("frontier height")}
	n := verifNondetLen("spork records", 0, verifParam("sporks", 2))
	for i := 0; i < n; i++ {
		s := &definition.Spork{}
		s.Id = ids[verifNondetLen("spork.Id (index)", 0, 3)]
		s.Activated = verifNondetBool("spork.Activated")
		s.EnforcementHeight = verifNondetU64("spork.EnforcementHeight")
		st.sporks = append(st.sporks, s)
	}
	justNow, unimplemented, err := GotAllActiveSporksImplemented(st)
	verifAssert(err == nil, "no error")
	want := false
	for _, s := range st.sporks {
		if s.Activated && s.EnforcementHeight <= st.height && s.Id == unknown {
			want = true
		}
	}
	verifReach("halt", len(unimplemented) > 0)
	verifReach("continue with an enforced implemented spork", len(unimplemented) == 0 && justNow != nil)
	verifAssert((len(unimplemented) > 0) == want, "unimplemented reported <=> an enforced activated spork is unknown to this binary")
	for _, s := range unimplemented {
		verifAssert(s.Id == unknown && s.Activated && s.EnforcementHeight <= st.height, "only enforced unknown sporks are reported")
	}
	if justNow != nil {
		verifAssert(justNow.Activated && justNow.EnforcementHeight == st.height, "'just activated' is a spork enforced exactly at this height")
	}
}
