//go:build verif

package account

import (
	"github.com/syndtr/goleveldb/leveldb"
	"github.com/syndtr/goleveldb/leveldb/memdb"

	"github.com/zenon-network/go-zenon/chain/account/mailbox"
	"github.com/zenon-network/go-zenon/common"
	"github.com/zenon-network/go-zenon/common/db"
	"github.com/zenon-network/go-zenon/common/types"
)

// ---- cuts (engine overrides): protobuf round trip of AccountHeader = fixed 60-byte layout; memdb skip-list heights
func verifModelAHSerialize(h *types.AccountHeader) ([]byte, error) {
	return common.JoinBytes(h.Address.Bytes(), h.Hash.Bytes(), common.Uint64ToBytes(h.Height)), nil
}
func verifModelAHDeserialize(data []byte) (*types.AccountHeader, error) {
	if len(data) != 60 {
		return nil, leveldb.ErrNotFound
	}
	h := &types.AccountHeader{}
	copy(h.Address[:], data[:20])
	copy(h.Hash[:], data[20:52])
	h.Height = common.BytesToUint64(data[52:])
	return h, nil
}
func verifModelRandHeight(p *memdb.DB) int { return 1 }

type verifRandSource interface {
	Int63() int64
	Seed(seed int64)
}

func verifModelNewSourceNil(seed int64) verifRandSource { return nil }

func c04Hash(tag string) types.Hash {
	var h types.Hash
	copy(h[:], verifNondetBytes(tag, 32))
	return h
}

func c04Header(tag string) types.AccountHeader {
	var a types.Address
	copy(a[:], verifNondetBytes(tag+".Address", 20))
	return types.AccountHeader{Address: a, HashHeight: types.HashHeight{Hash: c04Hash(tag + ".Hash"), Height: verifNondetU64(tag + ".Height")}}
}

// VerifC04ReceivedMarker: once a send is marked received on an account store, every store derived from it
// (the same view, a snapshot, a store the change set was applied to) reports it received - and only it:
// the marker key is a function of the hash alone.
func VerifC04ReceivedMarker() {
	var addr types.Address
	base := db.NewMemDB()
	as := NewAccountStore(addr, base).(*accountStore)
	h1 := c04Hash("received")
	h2 := c04Hash("other")
	pre := verifNondetBool("other was received earlier")
	if pre {
		verifAssert(as.MarkAsReceived(h2) == nil, "mark ok")
	}
	child := as.Snapshot().(*accountStore)
	verifAssert(child.MarkAsReceived(h1) == nil, "mark ok")
	verifReach("distinct", h1 != h2)
	verifAssert(child.IsReceived(h1), "the receiving view sees the marker")
	verifAssert(child.Snapshot().IsReceived(h1), "so does every snapshot of it (a competing receive on top is refused)")
	verifAssert(child.IsReceived(h2) == (pre || h1 == h2), "markers of other sends are untouched")
	verifAssert(as.IsReceived(h1) == (pre && h1 == h2), "the parent view is unaffected until the change set is applied")
	ch, err := child.Changes()
	verifAssert(err == nil && as.Apply(ch) == nil, "apply ok")
	verifAssert(as.IsReceived(h1), "after the block is inserted the account chain reports the send received")
	verifAssert(as.IsReceived(h2) == (pre || h1 == h2), "and nothing else")
}

// VerifC04SequencerFIFO: one step of the contract inbox from an arbitrary state (total pushed T, last received L <= T):
// push appends at T+1 and leaves earlier entries alone; front is nil iff L == T, else entry L+1; pop advances L by one.
func VerifC04SequencerFIFO() {
	var addr types.Address
	copy(addr[:], verifNondetBytes("contract", 20))
	mdb := db.NewMemDB()
	mb := mailbox.NewAccountMailbox(addr, mdb)
	adb := db.NewMemDB()
	as := NewAccountStore(addr, adb).(*accountStore)

	T := verifNondetU64("total pushed")
	L := verifNondetU64("last received")
	verifAssume(T < 1<<62 && L <= T, "representation invariant Q: 0 <= last <= total")
	// arbitrary pre-state: counters T and L, the entry after L (if any) and one probe entry i <= T
	if T > 0 {
		verifAssert(mdb.Put([]byte{7}, common.Uint64ToBytes(T)) == nil, "put")
	}
	if L > 0 {
		verifAssert(adb.Put(sequencerLastReceivedKey, common.Uint64ToBytes(L)) == nil, "put")
	}
	next := c04Header("next")
	if L < T {
		data, _ := verifModelAHSerialize(&next)
		verifAssert(mdb.Put(common.JoinBytes([]byte{8}, common.Uint64ToBytes(L+1)), data) == nil, "put")
	}
	i := verifNondetU64("probe index")
	verifAssume(i >= 1 && i <= T && i != L+1, "probe: an existing entry other than the next one")
	probe := c04Header("probe")
	if T > 0 {
		data, _ := verifModelAHSerialize(&probe)
		verifAssert(mdb.Put(common.JoinBytes([]byte{8}, common.Uint64ToBytes(i)), data) == nil, "put")
	}

	verifAssert(mb.SequencerSize() == T, "size reads the counter")
	// front
	f := as.SequencerFront(mb)
	verifReach("empty inbox", L == T)
	verifReach("non-empty inbox", L < T)
	verifAssert((f == nil) == (L == T), "front is nil exactly when everything pushed was received")
	if f != nil {
		verifAssert(*f == next, "front is the entry right after the last received one (no skipping)")
	}
	// push
	pushed := c04Header("pushed")
	mb.SequencerPushBack(pushed)
	verifAssert(mb.SequencerSize() == T+1, "push increases the total by one")
	got := mb.SequencerByHeight(T + 1)
	verifAssert(got != nil && *got == pushed, "push appends at the end")
	if T > 0 {
		p := mb.SequencerByHeight(i)
		verifAssert(p != nil && *p == probe, "push leaves earlier entries untouched")
	}
	f2 := as.SequencerFront(mb)
	if L < T {
		verifAssert(f2 != nil && *f2 == next, "push does not change the front of a non-empty inbox")
	} else {
		verifAssert(f2 != nil && *f2 == pushed, "push into an empty inbox makes the pushed entry the front")
	}
	// pop
	as.SequencerPopFront()
	verifAssert(as.sequencerFrontIndex() == L+1, "pop advances the cursor by exactly one (no repeating)")
	verifAssert(mb.SequencerSize() == T+1, "pop does not touch the mailbox")
}
