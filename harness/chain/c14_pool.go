//go:build verif

package chain

import (
	"math/big"

	"github.com/zenon-network/go-zenon/chain/nom"
)

func c14Block(tag string) *nom.AccountBlock {
	b := &nom.AccountBlock{}
	b.TotalPlasma = verifNondetU64(tag + ".TotalPlasma")
	b.BasePlasma = verifNondetU64(tag + ".BasePlasma")
	copy(b.Hash[:], verifNondetBytes(tag+".Hash", 32))
	// ranges established by the VM for every accepted block (C12): total <= 10.5e6, base <= 21000 + 68*16384
	verifAssume(b.TotalPlasma <= 10500000 && b.BasePlasma <= 21000+68*16384, tag+": plasma fields within the ranges the VM establishes (C12)")
	return b
}

func c14HashLess(a, b *nom.AccountBlock) bool {
	for i := 0; i < 32; i++ {
		if a.Hash[i] != b.Hash[i] {
			return a.Hash[i] < b.Hash[i]
		}
	}
	return false
}

// VerifC14WinnerRule: for two distinct competing blocks exactly one wins, by higher plasma ratio
// (cross-multiplied in unbounded integers) and then by smaller hash; the rule is antisymmetric.
func VerifC14WinnerRule() {
	a := c14Block("a")
	b := c14Block("b")
	ab := higherPriority(a, b) == nil
	ba := higherPriority(b, a) == nil

	l := new(big.Int).Mul(new(big.Int).SetUint64(a.TotalPlasma), new(big.Int).SetUint64(b.BasePlasma))
	r := new(big.Int).Mul(new(big.Int).SetUint64(b.TotalPlasma), new(big.Int).SetUint64(a.BasePlasma))
	wantAB := l.Cmp(r) > 0 || (l.Cmp(r) == 0 && c14HashLess(a, b))

	verifReach("a wins", ab)
	verifReach("b wins", ba)
	verifReach("tie on ratio", l.Cmp(r) == 0 && a.Hash != b.Hash)
	verifAssert(ab == wantAB, "higherPriority = (ratio greater) or (ratio equal and hash smaller)")
	verifAssert(!(ab && ba), "antisymmetric: both cannot win")
	if a.Hash != b.Hash {
		verifAssert(ab || ba, "total: one of two distinct blocks wins")
	}
}

// VerifC14WinnerRuleTransitive: the winner relation is transitive on three blocks with non-zero base plasma.
func VerifC14WinnerRuleTransitive() {
	a := c14Block("a")
	b := c14Block("b")
	c := c14Block("c")
	verifAssume(a.BasePlasma > 0 && b.BasePlasma > 0 && c.BasePlasma > 0, "user blocks: base plasma >= 21000")
	ab := higherPriority(a, b) == nil
	bc := higherPriority(b, c) == nil
	ac := higherPriority(a, c) == nil
	verifReach("chain", ab && bc)
	if ab && bc {
		verifAssert(ac, "transitive")
	}
}

// VerifC14FilterBlocksToCommit: the offered momentum content is the longest prefix of the pool listing that
// ends on a batch boundary (a block that is not a ContractSend) and has at most MaxAccountBlocksInMomentum blocks.
func VerifC14FilterBlocksToCommit() {
	saved := MaxAccountBlocksInMomentum
	MaxAccountBlocksInMomentum = 3 // the code is generic in the limit; the bound of this obligation
	defer func() { MaxAccountBlocksInMomentum = saved }()

	n := verifNondetLen("len(blocks)", 0, 7)
	blocks := make([]*nom.AccountBlock, n)
	for i := range blocks {
		blocks[i] = &nom.AccountBlock{Height: uint64(i + 1)}
		if verifNondetBool("is ContractSend") {
			blocks[i].BlockType = nom.BlockTypeContractSend
		} else {
			blocks[i].BlockType = nom.BlockTypeUserSend
		}
	}
	ap := &accountPool{}
	out := ap.filterBlocksToCommit(blocks)

	verifAssert(len(out) <= MaxAccountBlocksInMomentum, "never more than the per-momentum limit")
	verifAssert(len(out) <= len(blocks), "output is not longer than input")
	for i := range out {
		verifAssert(out[i] == blocks[i], "output is a prefix of the input, order kept")
	}
	if len(out) > 0 {
		verifAssert(out[len(out)-1].BlockType != nom.BlockTypeContractSend, "a contract batch is never split: output ends on a non-ContractSend block")
	}
	// maximality: no longer admissible prefix exists
	for k := len(out) + 1; k <= len(blocks) && k <= MaxAccountBlocksInMomentum; k++ {
		if blocks[k-1].BlockType != nom.BlockTypeContractSend {
			// a longer admissible prefix would have to be blocked by an earlier over-limit batch; with prefix
			// semantics the first admissible boundary beyond len(out) within the limit must have been taken
			verifAssert(false, "longest admissible prefix")
		}
	}
	verifReach("limit hit", len(blocks) > 3 && len(out) > 0)
	verifReach("batch cut", len(out) < len(blocks) && len(out) > 0)
	verifReach("empty", len(out) == 0 && len(blocks) > 0)
}
