//go:build verif

package consensus

import (
	"math/big"
	"math/rand"
	"time"

	"github.com/zenon-network/go-zenon/common/types"
)

func c05Delegation(tag string, nameLen int) *types.PillarDelegation {
	d := &types.PillarDelegation{Name: verifNondetString(tag+".Name", nameLen), Weight: verifNondetBig(tag + ".Weight")}
	copy(d.Producing[:], verifNondetBytes(tag+".Producing", 2))
	return d
}

// VerifC05OrderStrict: the pillar ordering used for group selection is a strict total order on
// delegations with distinct names (irreflexive, asymmetric, transitive, total).
func VerifC05OrderStrict() {
	a, b, c := c05Delegation("a", 2), c05Delegation("b", 2), c05Delegation("c", 2)
	s := types.SortPDByWeight{a, b, c}
	verifAssert(!s.Less(0, 0), "irreflexive")
	ab, ba := s.Less(0, 1), s.Less(1, 0)
	bc, ac := s.Less(1, 2), s.Less(0, 2)
	verifAssert(!(ab && ba), "asymmetric")
	if a.Name != b.Name {
		verifAssert(ab || ba, "total on distinct names")
	}
	verifReach("chain", ab && bc)
	if ab && bc {
		verifAssert(ac, "transitive")
	}
	// reference: heavier first, then smaller name
	want := a.Weight.Cmp(b.Weight) > 0 || (a.Weight.Cmp(b.Weight) == 0 && a.Name < b.Name)
	verifAssert(ab == want, "order = weight descending, then name ascending")
	// the detailed variant must be the same order
	d := types.SortPDDByWeight{&types.PillarDelegationDetail{PillarDelegation: *a}, &types.PillarDelegationDetail{PillarDelegation: *b}}
	verifAssert(d.Less(0, 1) == ab, "SortPDDByWeight agrees with SortPDByWeight")
}

// ---- model of math/rand used by the election algorithm: Perm is an arbitrary permutation of [0,n)
// that depends only on (seed, n).  Installed through engine overrides of rand.NewSource and (*rand.Rand).Perm.

var c05LastSeed int64

type c05PermMemo struct {
	seed int64
	n    int
	perm []int
}

var c05Memo []c05PermMemo

func verifModelNewSource(seed int64) rand.Source {
	c05LastSeed = seed
	return nil
}

func verifModelPerm(r *rand.Rand, n int) []int {
	for _, m := range c05Memo {
		if m.n == n && m.seed == c05LastSeed {
			return append([]int{}, m.perm...)
		}
	}
	rest := make([]int, n)
	for i := range rest {
		rest[i] = i
	}
	perm := make([]int, 0, n)
	for len(rest) > 0 {
		k := verifChoose("perm", len(rest))
		perm = append(perm, rest[k])
		rest = append(rest[:k], rest[k+1:]...)
	}
	c05Memo = append(c05Memo, c05PermMemo{c05LastSeed, n, append([]int{}, perm...)})
	return perm
}

func c05Group(nodeCount, randCount uint8) *Context {
	ctx := NewConsensusContext(time.Unix(1600000000, 0))
	ctx.NodeCount = nodeCount
	ctx.RandCount = randCount
	return ctx
}

func c05Input(n int, symbolicWeights bool) []*types.PillarDelegation {
	names := []string{"p0", "p1", "p2", "p3", "p4", "p5"}
	in := make([]*types.PillarDelegation, n)
	for i := range in {
		d := &types.PillarDelegation{Name: names[i]}
		d.Producing[0] = byte(i + 1)
		if symbolicWeights {
			d.Weight = verifNondetBig(names[i] + ".Weight")
			verifAssume(d.Weight.Sign() >= 0, "weights are sums of balances")
		} else {
			d.Weight = big.NewInt(int64(100 - 7*i))
		}
		in[i] = d
	}
	return in
}

func c05Count(list []*types.PillarDelegation, d *types.PillarDelegation) int {
	k := 0
	for _, x := range list {
		if x == d {
			k++
		}
	}
	return k
}

// VerifC05ScheduleShape: SelectProducers on a scaled-down group (NodeCount 3, RandCount 1; the code is generic
// in both) for every number of active pillars 1..5, every permutation the PRNG may return, and (n<=3) every weight
// assignment: exactly NodeCount slots, each filled with one of the input pillars; with at least NodeCount pillars no
// pillar holds two slots and at least NodeCount-RandCount slots go to the NodeCount heaviest.
func VerifC05ScheduleShape() {
	c05Memo = nil
	n := verifNondetLen("active pillars", 1, 5)
	in := c05Input(n, n <= 3)
	orig := append([]*types.PillarDelegation{}, in...)
	ea := NewElectionAlgorithm(c05Group(3, 1))
	hh := types.HashHeight{Height: verifNondetU64("proof height")}
	out := ea.SelectProducers(NewAlgorithmContext(in, &hh))

	verifAssert(len(out) == 3, "exactly NodeCount slots")
	for _, p := range out {
		verifAssert(p != nil && c05Count(orig, p) == 1, "every slot holds one of the active pillars")
	}
	if n >= 3 {
		verifReach("full group", true)
		for _, p := range orig {
			verifAssert(c05Count(out, p) <= 1, "no pillar holds two slots when there are enough pillars")
		}
		// heaviest NodeCount by the strict order
		top := 0
		for _, p := range out {
			heavier := 0
			for _, q := range orig {
				if q != p && (q.Weight.Cmp(p.Weight) > 0 || (q.Weight.Cmp(p.Weight) == 0 && q.Name < p.Name)) {
					heavier++
				}
			}
			if heavier < 3 {
				top++
			}
		}
		verifAssert(top >= 2, "at least NodeCount-RandCount slots go to the NodeCount heaviest pillars")
	} else {
		verifReach("fewer pillars than slots", true)
		for _, p := range orig {
			verifAssert(c05Count(out, p) >= 1, "with fewer pillars than slots every active pillar gets a slot")
		}
	}
}

// VerifC05InputOrderIndependence: the schedule does not depend on the order in which delegations are listed
// (map iteration order upstream), for equal seeds; ties on weight are broken by name.
func VerifC05InputOrderIndependence() {
	c05Memo = nil
	n := verifNondetLen("active pillars", 2, 4)
	in := c05Input(n, true)
	// second listing: an arbitrary permutation of the same delegations
	rest := append([]*types.PillarDelegation{}, in...)
	var in2 []*types.PillarDelegation
	for len(rest) > 0 {
		k := verifChoose("listing", len(rest))
		in2 = append(in2, rest[k])
		rest = append(rest[:k], rest[k+1:]...)
	}
	ea := NewElectionAlgorithm(c05Group(3, 1))
	hh := types.HashHeight{Height: verifNondetU64("proof height")}
	out1 := ea.SelectProducers(NewAlgorithmContext(in, &hh))
	out2 := ea.SelectProducers(NewAlgorithmContext(in2, &hh))
	verifAssert(len(out1) == len(out2), "same number of slots")
	verifReach("compared", true)
	for i := range out1 {
		verifAssert(out1[i] == out2[i], "same pillar in every slot regardless of listing order")
	}
}

// VerifC05Ticks: tick arithmetic on whole-second timestamps (momentum timestamps are time.Unix(sec,0)):
// a time lies inside the interval of its tick, ticks tile the time line, slots tile a tick, and the proof time of a
// tick is not later than the tick's start.
func VerifC05Ticks() {
	g := verifNondetI64("genesis unix")
	s := verifNondetI64("t unix")
	verifAssume(g >= 1600000000 && g < 1<<40 && s >= g && s-g < 9000000000, "genesis and momentum times are whole seconds after 2020, genesis <= t < genesis + 285 years (time.Duration saturates at 292 years)")
	ctx := NewConsensusContext(time.Unix(g, 0))
	t := time.Unix(s, 0)
	tick := ctx.ToTick(t)
	st, et := ctx.ToTime(tick)
	verifReach("later tick", tick > 5)
	verifAssert(st.Unix() <= s && s < et.Unix(), "ToTime(ToTick(t)).start <= t < end")
	verifAssert(et.Unix()-st.Unix() == int64(ctx.BlockTime)*int64(ctx.NodeCount), "tick length = BlockTime*NodeCount")
	st2, _ := ctx.ToTime(tick + 1)
	verifAssert(st2.Unix() == et.Unix(), "ticks tile the time line")
	verifAssert(new(big.Int).SetUint64(tick).Cmp(new(big.Int).Quo(big.NewInt(s-g), big.NewInt(300))) == 0, "tick = floor((t-genesis)/300)")

	em := &electionManager{Context: *ctx}
	pt := em.genProofTime(tick)
	verifAssert(pt.Unix() <= st.Unix() || tick < 2, "proof time of a tick is not after the tick starts")
	if tick >= 2 {
		verifAssert(pt.Unix() == st.Unix()-int64(ctx.BlockTime)*int64(ctx.NodeCount), "proof time = end of tick-2")
	}

}

// VerifC05Slots: the producer slots of a tick are contiguous, BlockTime long and span exactly the tick
// (scaled-down group of 3 slots; the loop is generic in NodeCount).
func VerifC05Slots() {
	g := verifNondetI64("genesis unix")
	verifAssume(g >= 1600000000 && g < 1<<40, "genesis is a whole second after 2020")
	gt := time.Unix(g, 0)
	ctx := &Context{GenesisTime: gt}
	ctx.BlockTime = 10
	ctx.NodeCount = 3
	ctx.Ticker = NewConsensusContext(gt).Ticker
	tick := verifNondetU64("tick")
	verifAssume(tick < 1<<24, "ticks below 2^24 (159 years of 300 s ticks; time.Duration overflows after 292 years)")
	st, _ := ctx.ToTime(tick)
	addrs := make([]types.Address, ctx.NodeCount)
	evs := generateProducers(ctx, tick, addrs)
	verifReach("slots", len(evs) == 3)
	verifAssert(len(evs) == int(ctx.NodeCount), "one producer event per slot")
	verifAssert(evs[0].StartTime.Unix() == st.Unix(), "first slot starts with the tick")
	for k := 1; k < len(evs); k++ {
		verifAssert(evs[k].StartTime.Unix() == evs[k-1].EndTime.Unix(), "slots are contiguous")
	}
	for k := range evs {
		verifAssert(evs[k].EndTime.Unix()-evs[k].StartTime.Unix() == ctx.BlockTime, "every slot is BlockTime long")
	}
	verifAssert(generateProducers(ctx, tick, addrs[:2]) == nil, "a producer list of the wrong length yields no schedule")
}

// VerifC05ScheduleRepeatable: computing the schedule of one tick twice from the same delegations gives the same
// ordered list, whatever order Go's map iteration happens to take inside the algorithm (a group with two random
// slots, NodeCount 4 / RandCount 2, so that two unselected top pillars get their "second chance" together).
func VerifC05ScheduleRepeatable() {
	c05Memo = nil
	verifMapOrderNondet(true)
	n := verifNondetLen("active pillars", 4, 6)
	in := c05Input(n, false)
	ea := NewElectionAlgorithm(c05Group(4, 2))
	hh := types.HashHeight{Height: verifNondetU64("proof height")}
	out1 := ea.SelectProducers(NewAlgorithmContext(append([]*types.PillarDelegation{}, in...), &hh))
	out2 := ea.SelectProducers(NewAlgorithmContext(append([]*types.PillarDelegation{}, in...), &hh))
	verifAssert(len(out1) == 4 && len(out2) == 4, "exactly NodeCount slots")
	verifReach("compared", true)
	for i := range out1 {
		verifAssert(out1[i] == out2[i], "the same pillar in every slot on every computation")
	}
}
