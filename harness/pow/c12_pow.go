//go:build verif

package pow

import "math/big"

// VerifC12PowThreshold: greaterDifficulty(digest, getTargetByDifficulty(d)) ⇔
// le64(digest) ≥ 2^64 − ⌊2^64/d⌋, for every 64-bit d ≠ 0 and every 8-byte digest.
// The digest bytes stand for crypto.Hash(nonce‖dataHash)[:8] (sha3 uninterpreted: any value).
func VerifC12PowThreshold() {
	d := verifNondetU64("difficulty")
	digest := verifNondetBytes("digest", 8)
	verifAssume(d != 0, "verifier consults PoW only for difficulty != 0")

	// oracle in mathematical integers, restated from the property text
	two64 := new(big.Int).Lsh(big.NewInt(1), 64)
	q := new(big.Int).Quo(two64, new(big.Int).SetUint64(d))
	thr := new(big.Int).Sub(two64, q)
	// lemmas (each is discharged by the solver, then available as a fact on this path)
	verifAssert(q.Sign() > 0 && q.Cmp(two64) <= 0, "lemma: 1 <= 2^64/d <= 2^64")
	verifAssert(thr.Sign() >= 0 && thr.Cmp(two64) < 0, "lemma: threshold fits 64 bits")

	target := getTargetByDifficulty(d)
	got := greaterDifficulty(digest, target[:])
	rev := make([]byte, 8)
	for i := 0; i < 8; i++ {
		rev[i] = digest[7-i]
	}
	le := new(big.Int).SetBytes(rev)
	want := le.Cmp(thr) >= 0

	verifReach("accepted", got)
	verifReach("rejected", !got)
	verifAssert(got == want, "pow threshold matches 2^64 - 2^64/d")
}

// The end-to-end statement above mixes a non-linear quotient with byte-wise comparisons on 17 paths.
// It is also decided in three steps whose conjunction implies it (composition: (a) target = thr mod 2^64,
// (b) 0 <= thr < 2^64 so the reduction is the identity, (c) greaterDifficulty is >= on little-endian values).

// VerifC12PowTargetValue: (a)+(b) the stored target is exactly 2^64 − ⌊2^64/d⌋, which fits 64 bits.
func VerifC12PowTargetValue() {
	d := verifNondetU64("difficulty")
	verifAssume(d != 0, "verifier consults PoW only for difficulty != 0")
	target := getTargetByDifficulty(d)
	var tv uint64
	for i := 7; i >= 0; i-- {
		tv = tv<<8 | uint64(target[i])
	}
	two64 := new(big.Int).Lsh(big.NewInt(1), 64)
	q := new(big.Int).Quo(two64, new(big.Int).SetUint64(d))
	verifAssert(q.Sign() > 0 && q.Cmp(two64) <= 0, "1 <= 2^64/d <= 2^64")
	thr := new(big.Int).Sub(two64, q)
	verifAssert(thr.Sign() >= 0 && thr.Cmp(two64) < 0, "threshold fits 64 bits")
	verifReach("any", true)
	verifAssert(new(big.Int).SetUint64(tv).Cmp(thr) == 0, "target = 2^64 - 2^64/d")
}

// VerifC12PowCompare: (c) greaterDifficulty(x,y) ⇔ le64(x) ≥ le64(y) for all 8-byte x,y.
func VerifC12PowCompare() {
	x := verifNondetBytes("x", 8)
	y := verifNondetBytes("y", 8)
	got := greaterDifficulty(x, y)
	var xv, yv uint64
	for i := 7; i >= 0; i-- {
		xv = xv<<8 | uint64(x[i])
		yv = yv<<8 | uint64(y[i])
	}
	verifReach("greater", got)
	verifReach("smaller", !got)
	verifAssert(got == (xv >= yv), "greaterDifficulty is >= on little-endian 64-bit values")
}

// VerifC12PowValidate: concrete vectors through the same functions (translator validation).
func VerifC12PowValidate() {
	d := verifNondetU64("difficulty")
	digest := verifNondetBytes("digest", 8)
	target := getTargetByDifficulty(d)
	verifOutBytes("target", target[:])
	verifOutBool("greater", greaterDifficulty(digest, target[:]))
	b := Uint64ToByteArray(d)
	verifOutBytes("le", b[:])
}
