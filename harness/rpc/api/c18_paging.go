//go:build verif

package api

import (
	"math/big"

	"github.com/zenon-network/go-zenon/chain"
	"github.com/zenon-network/go-zenon/chain/nom"
	"github.com/zenon-network/go-zenon/chain/store"
	"github.com/zenon-network/go-zenon/common"
	"github.com/zenon-network/go-zenon/common/types"
)

func c18min(a, b *big.Int) *big.Int {
	if a.Cmp(b) < 0 {
		return a
	}
	return b
}

func c18u32(v uint32) *big.Int { return new(big.Int).SetUint64(uint64(v)) }
func c18u64(v uint64) *big.Int { return new(big.Int).SetUint64(v) }

// VerifC18GetRange: GetRange(i, c, n) = (min(i·c, n), min(i·c + c, n)) computed without wrap-around,
// for every 32-bit page index, every page size within the advertised limit and every list length.
func VerifC18GetRange() {
	index := verifNondetU32("index")
	count := verifNondetU32("count")
	n := verifNondetU32("listLen")
	verifAssume(count <= RpcMaxPageSize, "callers reject pageSize > RpcMaxPageSize before calling GetRange")
	verifAssume(n <= 1<<31, "lists held in memory have at most 2^31 elements")

	s, e := GetRange(index, count, n)

	ic := new(big.Int).Mul(c18u32(index), c18u32(count))
	wantS := c18min(ic, c18u32(n))
	wantE := c18min(new(big.Int).Add(ic, c18u32(count)), c18u32(n))
	verifReach("inside", s < e)
	verifReach("beyond end", s == n)
	verifAssert(s <= e && e <= n, "0 <= start <= end <= len (slice expression cannot panic)")
	verifAssert(e-s <= count, "a page never has more than pageSize elements")
	verifAssert(c18u32(s).Cmp(wantS) == 0, "start = min(index*count, len)")
	verifAssert(c18u32(e).Cmp(wantE) == 0, "end = min(index*count+count, len)")
}

// ---- models of the chain as seen by the ledger API

type c18Account struct {
	store.Account
	frontier *nom.AccountBlock
	reqH     uint64
	reqC     uint64
	calls    int
}

func (a *c18Account) Frontier() (*nom.AccountBlock, error) { return a.frontier, nil }
func (a *c18Account) MoreByHeight(height, count uint64) ([]*nom.AccountBlock, error) {
	a.calls++
	a.reqH, a.reqC = height, count
	return nil, nil
}

type c18Momentum struct {
	store.Momentum
	frontier *nom.Momentum
	reqH     uint64
	reqC     uint64
	calls    int
}

func (m *c18Momentum) GetFrontierMomentum() (*nom.Momentum, error) { return m.frontier, nil }
func (m *c18Momentum) GetMomentumsByHeight(height uint64, higher bool, count uint64) ([]*nom.Momentum, error) {
	m.calls++
	m.reqH, m.reqC = height, count
	verifAssert(higher, "ledger API reads momentums upwards from the requested height")
	return nil, nil
}

type c18Chain struct {
	chain.Chain
	acc *c18Account
	mom *c18Momentum
}

func (c *c18Chain) GetFrontierAccountStore(address types.Address) store.Account { return c.acc }
func (c *c18Chain) GetFrontierMomentumStore() store.Momentum                    { return c.mom }

// c18RefPage: the heights of page i (size s) of a list 1..F served newest-first, as a closed range [lo,hi];
// empty when lo > hi.
func c18RefPage(F uint64, i, s uint32) (lo, hi *big.Int) {
	hi = new(big.Int).Sub(c18u64(F), new(big.Int).Mul(c18u32(i), c18u32(s)))
	lo = new(big.Int).Add(new(big.Int).Sub(hi, c18u32(s)), big.NewInt(1))
	if lo.Cmp(big.NewInt(1)) < 0 {
		lo = big.NewInt(1)
	}
	return lo, hi
}

// c18Effective: heights actually obtained from a store asked for (height,count) when heights 1..F exist.
func c18Effective(F, height, count uint64) (lo, hi *big.Int) {
	lo = c18u64(height)
	hi = new(big.Int).Sub(new(big.Int).Add(lo, c18u64(count)), big.NewInt(1))
	hi = c18min(hi, c18u64(F))
	return lo, hi
}

func c18SameRange(lo1, hi1, lo2, hi2 *big.Int) bool {
	e1 := lo1.Cmp(hi1) > 0
	e2 := lo2.Cmp(hi2) > 0
	if e1 || e2 {
		return e1 == e2
	}
	return lo1.Cmp(lo2) == 0 && hi1.Cmp(hi2) == 0
}

// VerifC18AccountBlocksByPage: the heights requested from the account store are exactly page pageIndex
// of the account chain served newest-first; never height 0, never more than pageSize.
func VerifC18AccountBlocksByPage() {
	F := verifNondetU64("frontier height")
	verifAssume(F >= 1 && F < 1<<62, "account heights start at 1 and grow by one per block")
	pageIndex := verifNondetU32("pageIndex")
	pageSize := verifNondetU32("pageSize")
	acc := &c18Account{frontier: &nom.AccountBlock{Height: F}}
	l := &LedgerApi{chain: &c18Chain{acc: acc}, log: common.RPCLogger}
	var addr types.Address

	res, err := l.GetAccountBlocksByPage(addr, pageIndex, pageSize)
	if pageSize > RpcMaxPageSize {
		verifReach("too big", true)
		verifAssert(err == ErrPageSizeParamTooBig && acc.calls == 0, "pageSize above the limit is refused before touching the store")
		return
	}
	verifAssert(err == nil && res != nil, "no error for admissible parameters")
	verifAssert(res.Count == int(F), "Count is the chain length")
	lo, hi := c18RefPage(F, pageIndex, pageSize)
	if acc.calls == 0 {
		verifReach("empty page", true)
		verifAssert(lo.Cmp(hi) > 0, "nothing requested only when the page is empty")
		return
	}
	verifReach("store asked", true)
	verifAssert(acc.calls == 1 && acc.reqH >= 1 && acc.reqC <= uint64(pageSize), "one request, height >= 1, count <= pageSize")
	elo, ehi := c18Effective(F, acc.reqH, acc.reqC)
	verifAssert(c18SameRange(elo, ehi, lo, hi), "requested heights = reference page")
}

// VerifC18MomentumsByPage: same for momentums.
func VerifC18MomentumsByPage() {
	F := verifNondetU64("frontier height")
	verifAssume(F >= 1 && F < 1<<62, "momentum heights start at 1 and grow by one per momentum")
	pageIndex := verifNondetU32("pageIndex")
	pageSize := verifNondetU32("pageSize")
	mom := &c18Momentum{frontier: &nom.Momentum{Height: F}}
	l := &LedgerApi{chain: &c18Chain{mom: mom}, log: common.RPCLogger}

	res, err := l.GetMomentumsByPage(pageIndex, pageSize)
	if pageSize > RpcMaxPageSize {
		verifReach("too big", true)
		verifAssert(err == ErrPageSizeParamTooBig && mom.calls == 0, "pageSize above the limit is refused before touching the store")
		return
	}
	verifAssert(err == nil && res != nil, "no error for admissible parameters")
	verifAssert(res.Count == int(F), "Count is the chain length")
	lo, hi := c18RefPage(F, pageIndex, pageSize)
	if mom.calls == 0 {
		verifReach("empty page", true)
		verifAssert(lo.Cmp(hi) > 0, "nothing requested only when the page is empty")
		return
	}
	verifReach("store asked", true)
	verifAssert(mom.calls == 1 && mom.reqH >= 1 && mom.reqC <= uint64(pageSize), "one request, height >= 1, count <= pageSize")
	elo, ehi := c18Effective(F, mom.reqH, mom.reqC)
	verifAssert(c18SameRange(elo, ehi, lo, hi), "requested heights = reference page")
}

// VerifC18ByHeight: by-height queries pass the caller's range through unchanged, refuse height 0 and counts
// above the limit.
func VerifC18ByHeight() {
	F := verifNondetU64("frontier height")
	verifAssume(F >= 1 && F < 1<<62, "heights start at 1")
	height := verifNondetU64("height")
	count := verifNondetU64("count")
	acc := &c18Account{frontier: &nom.AccountBlock{Height: F}}
	mom := &c18Momentum{frontier: &nom.Momentum{Height: F}}
	l := &LedgerApi{chain: &c18Chain{acc: acc, mom: mom}, log: common.RPCLogger}
	var addr types.Address
	r1, e1 := l.GetAccountBlocksByHeight(addr, height, count)
	r2, e2 := l.GetMomentumsByHeight(height, count)
	if height == 0 {
		verifReach("height zero", true)
		verifAssert(e1 == ErrHeightParamIsZero && e2 == ErrHeightParamIsZero && acc.calls+mom.calls == 0, "height 0 refused")
		return
	}
	if count > RpcMaxCountSize {
		verifReach("count too big", true)
		verifAssert(e1 == ErrCountParamTooBig && e2 == ErrCountParamTooBig && acc.calls+mom.calls == 0, "count above the limit refused")
		return
	}
	verifReach("ok", true)
	verifAssert(e1 == nil && e2 == nil && r1.Count == int(F) && r2.Count == int(F), "answers carry the chain length")
	verifAssert(acc.reqH == height && acc.reqC == count && mom.reqH == height && mom.reqC == count, "range passed to the store unchanged")
}

// VerifC18Validate: concrete vectors for translator validation.
func VerifC18Validate() {
	s, e := GetRange(verifNondetU32("index"), verifNondetU32("count"), verifNondetU32("listLen"))
	verifOutU64("start", uint64(s))
	verifOutU64("end", uint64(e))
}
