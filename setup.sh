#!/bin/sh
# Build the symbolic engine from files on disk only (offline).
set -e
cd "$(dirname "$0")/gosym"
export GOFLAGS=-mod=mod GOPROXY=off GOSUMDB=off GOTOOLCHAIN=local
mkdir -p ../bin
go build -o ../bin/gosym .
echo "gosym built"
